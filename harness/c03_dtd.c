/* E2 (C03, C04, C17): DTD script interpreter + sequential oracle + stamp/interval checker.
 *
 * One binary interprets a seeded *script* (written by lib/e2dtd.py, identical on every rank): tiles of one small
 * block-cyclic collection per taskpool plus parsec_dtd_tile_new tiles, task insertions with 1..4 tracked
 * parameters (INPUT / OUTPUT / INOUT, the same tile possibly several times), value parameters, placement by
 * PARSEC_AFFINITY on a parameter or by explicit rank, optional PARSEC_DONT_TRACK readers, tasks inserting tasks,
 * single-tile and whole-collection flushes, taskpool waits and check points.
 *
 * What is observed (test-owned boundaries only):
 *   - task bodies: value read on every INPUT/INOUT parameter at entry, value written, enter/exit stamp from one
 *     atomic counter, per-(tile, copy-epoch) active reader/writer counters checked online;
 *   - owner memory of flushed tiles after flush + wait (check points);
 *   - PREPARE_INPUT / EXEC PINS callbacks: a PREPARE_INPUT of a task that is not followed by its EXEC on the same
 *     stream is an AGAIN re-schedule (the writer-waits-for-readers path).
 * Oracles:
 *   C03  every read and every check-point value equals the sequential interpreter (insertion order);
 *   C04  online exclusion counters + offline: for two conflicting accesses of one tile copy on one rank the
 *        earlier inserted exited before the later entered (readers of one group may overlap; overlaps counted);
 *   C17  owner copy at a check point == the value actually produced by the last inserted writer of that tile
 *        (wherever it ran; gathered with MPI_Allreduce), or the previous owner value when nobody wrote.
 * Violations are printed as VF {"type":"violation","key":...}; keys starting with
 *   read-/final-/same-tile-in-task/task-  belong to C03, overlap:/order: to C04, flush- to C17.
 */
#include "kit.h"
#include "parsec/runtime.h"
#include "parsec/execution_stream.h"
#include "parsec/interfaces/dtd/insert_function_internal.h"
#include "parsec/data_dist/matrix/two_dim_rectangle_cyclic.h"
#include "parsec/mca/pins/pins.h"
#include "parsec/scheduling.h"
#include "parsec/mca/sched/sched.h"
#include "parsec/utils/debug.h"
#include <mpi.h>

#define MAXP 4
#define MAXTP 4
enum { M_R = 0, M_W = 1, M_RW = 2 };
enum { PF_DONT_TRACK = 1 };
enum { OP_TASK, OP_FLUSH, OP_FLUSHALL, OP_WAIT, OP_CHECK, OP_PAUSE };
#define V_NONE ((int64_t)0x7ff0dead7ff0deadLL)

typedef struct {
    int id, tp, prio, place, sleep_us, nchild, np, parent, rank, rep; /* rep: some tile repeated in this task */
    int tile[MAXP], mode[MAXP], pfl[MAXP], epoch[MAXP];
    int taint;                 /* index into taint strings: reads data influenced by a repeated-tile task */
    parsec_dtd_tile_t *h[MAXP]; /* tile handles of a nested task, resolved by the main thread when its parent is inserted */
} task_t;
typedef struct { int kind, a, n; int *tiles; int64_t *pyexp; } op_t;
typedef struct { int tp, kind, owner, lidx; parsec_dtd_tile_t *nt; int nt_retained; } tile_t;
typedef struct { volatile int32_t r, w; volatile int32_t cur_writer, some_reader; } cnt_t;

static task_t *T; static int NT;
static op_t *OPS; static int NOPS;
static tile_t *TL; static int NTL;
static int NTP = 1, NB = 4, world = 1, myrank = 0, SWORLD = 1;
static int TILE_FULL;
static parsec_context_t *pctx;
static parsec_taskpool_t *TP[MAXTP];
static parsec_data_collection_t *DC[MAXTP];
static parsec_matrix_block_cyclic_t *MAT[MAXTP];
static int ncoll[MAXTP];

/* observations */
static int64_t (*obs)[MAXP], (*wrote)[MAXP], (*expr)[MAXP], (*expw)[MAXP];
static uint64_t *ent, *ext;
static int32_t *ran; static int32_t *nullmask, *tornmask;
static cnt_t **CNT; static int **EP;              /* per tile and rank: current copy epoch (a write on another rank or a flush gives this rank a new copy) */
static volatile int64_t n_reader_overlap_online = 0, max_conc_readers = 0;
static char taintstr[64][48]; static int ntaint = 0;

/* ---------------------------------------------------------------- tile buffers */
static inline void tile_write(int64_t *b, int64_t v) { b[0] = v; for (int j = 1; j < NB; j++) b[j] = (int64_t)vf_mix((uint64_t)v, (uint64_t)j); }
static inline int64_t tile_read(const int64_t *b, int *torn) {
    int64_t v = __atomic_load_n(&b[0], __ATOMIC_RELAXED);
    for (int j = 1; j < NB; j++) if (__atomic_load_n(&b[j], __ATOMIC_RELAXED) != (int64_t)vf_mix((uint64_t)v, (uint64_t)j)) { *torn = 1; break; }
    return v;
}
static int64_t *coll_ptr(int g) {
    parsec_data_collection_t *A = DC[TL[g].tp];
    return (int64_t *)parsec_data_copy_get_ptr(parsec_data_get_copy(A->data_of(A, TL[g].lidx, 0), 0));
}
static parsec_dtd_tile_t *tile_handle(int g) {
    if (TL[g].kind == 1) return TL[g].nt;
    parsec_data_collection_t *A = DC[TL[g].tp];
    return PARSEC_DTD_TILE_OF_KEY(A, A->data_key(A, TL[g].lidx, 0));
}
static const char *mname(int m) { return m == M_R ? "R" : m == M_W ? "W" : "RW"; }

/* key class of a repeated-tile task: (W|RW,*) when the first access of the repeated tile writes, (R,*) when it reads */
static void rep_class(const task_t *t, char *out, size_t n) {
    int d = -1;
    for (int i = 0; i < t->np && d < 0; i++) for (int j = 0; j < i; j++) if (t->tile[i] == t->tile[j] && !(t->pfl[i] & PF_DONT_TRACK) && !(t->pfl[j] & PF_DONT_TRACK)) { d = t->tile[i]; break; }
    for (int i = 0; i < t->np; i++) if (t->tile[i] == d && !(t->pfl[i] & PF_DONT_TRACK)) { snprintf(out, n, "%s", t->mode[i] != M_R ? "(W|RW,*)" : "(R,*)"); return; }
    snprintf(out, n, "(?)");
}

/* ---------------------------------------------------------------- PINS: AGAIN counting */
typedef struct { parsec_pins_next_callback_t prep, exec; parsec_task_t *cur; int cur_id; uint64_t n_prepare, n_again, n_writer_again, n_exec; char pad[64]; } escb_t;
static escb_t *ESCB; static int NES;
static int body1(parsec_execution_stream_t *, parsec_task_t *), body2(parsec_execution_stream_t *, parsec_task_t *),
           body3(parsec_execution_stream_t *, parsec_task_t *), body4(parsec_execution_stream_t *, parsec_task_t *);
static int script_task_id(parsec_task_t *task) {
    if (NULL == task || NULL == task->taskpool || task->taskpool->taskpool_type != PARSEC_TASKPOOL_TYPE_DTD) return -1;
    const __parsec_chore_t *inc = task->task_class->incarnations;
    if (NULL == inc) return -1;
    parsec_hook_t *h = inc[0].hook;
    if (h != (parsec_hook_t *)body1 && h != (parsec_hook_t *)body2 && h != (parsec_hook_t *)body3 && h != (parsec_hook_t *)body4) return -1;
    int id = -1; parsec_dtd_unpack_args(task, &id); return id;
}
static void account_again(escb_t *c) {
    if (c->cur) {
        c->n_again++;
        if (c->cur_id >= 0) { task_t *t = &T[c->cur_id]; for (int k = 0; k < t->np; k++) if (t->mode[k] != M_R) { c->n_writer_again++; break; } }
        c->cur = NULL;
    }
}
static void cb_prepare(parsec_execution_stream_t *es, parsec_task_t *task, parsec_pins_next_callback_t *d) {
    escb_t *c = (escb_t *)((char *)d - offsetof(escb_t, prep)); (void)es;
    if (NULL == task || NULL == task->taskpool || task->taskpool->taskpool_type != PARSEC_TASKPOOL_TYPE_DTD) return;
    account_again(c);
    c->cur = task; c->cur_id = script_task_id(task); c->n_prepare++;
}
static void cb_exec(parsec_execution_stream_t *es, parsec_task_t *task, parsec_pins_next_callback_t *d) {
    escb_t *c = (escb_t *)((char *)d - offsetof(escb_t, exec)); (void)es;
    if (task == c->cur) c->cur = NULL;
    c->n_exec++;
}

/* ---------------------------------------------------------------- stuck report (diagnostic only, never a verdict) */
static volatile int stuck_stop = 0, script_running = 0; static pthread_t stuck_thr;
static void *stuck_main(void *a) {
    (void)a; uint64_t last = 0; int same = 0, reported = 0;
    while (!stuck_stop) {
        usleep(500000);
        if (!script_running) { VF_TICK(); same = 0; continue; }   /* start-up and tear-down (MPI, parsec_init/fini) are not monitored events: only the overall time-out applies */
        uint64_t p = vf_progress;
        if (p != last) { last = p; same = 0; continue; }
        if (++same % 30 == 0 && reported < 8 && ran) {          /* 15 s without a monitored event */
            char buf[900]; size_t o = 0; int n = 0; reported++;
            for (int i = 0; i < NT && n < 12; i++) if (T[i].rank == myrank && !ran[i]) { o += snprintf(buf + o, sizeof buf - o, "%s%d", n ? "," : "", i); n++; }
            char ag[300]; size_t q = 0; ag[0] = 0;
            for (int e = 0; e < NES && q < sizeof ag - 20; e++) if (ESCB && ESCB[e].cur) q += snprintf(ag + q, sizeof ag - q, "%s%d", q ? "," : "", ESCB[e].cur_id);
            vf_out("{\"type\":\"stuck\",\"rank\":%d,\"progress\":%llu,\"first_not_run\":[%s],\"retrying_prepare_input\":[%s]}", myrank, (unsigned long long)p, n ? buf : "", ag);
        }
    }
    return NULL;
}

/* ---------------------------------------------------------------- insertion */
static const int pmode[3] = { PARSEC_INPUT, PARSEC_OUTPUT, PARSEC_INOUT };
static void insert_task(task_t *t) {
    parsec_dtd_funcptr_t *fn[5] = { NULL, body1, body2, body3, body4 };
    parsec_dtd_tile_t *tl[MAXP] = {0}; int fl[MAXP] = {0};
    int prank = t->place >= 0 ? t->place % world : 0;
    int pflag = PARSEC_VALUE | (t->place >= 0 ? PARSEC_AFFINITY : 0);
    /* the tile table of a collection is not thread safe (nolock find): only the main thread looks tiles up; the
     * handles of the tasks a task will insert are resolved here, before that task can run */
    for (int c = 1; c <= t->nchild; c++) for (int k = 0; k < T[t->id + c].np; k++) T[t->id + c].h[k] = tile_handle(T[t->id + c].tile[k]);
    for (int k = 0; k < t->np; k++) {
        tl[k] = t->parent >= 0 ? t->h[k] : tile_handle(t->tile[k]);
        fl[k] = pmode[t->mode[k]] | TILE_FULL;
        if (t->place < 0 && k == -1 - t->place) fl[k] |= PARSEC_AFFINITY;
        if (t->pfl[k] & PF_DONT_TRACK) fl[k] |= PARSEC_DONT_TRACK;
    }
    parsec_taskpool_t *tp = TP[t->tp];
    switch (t->np) {
    case 1: parsec_dtd_insert_task(tp, fn[1], t->prio, PARSEC_DEV_CPU, "e2t1", sizeof(int), &t->id, PARSEC_VALUE, sizeof(int), &prank, pflag,
                                   PASSED_BY_REF, tl[0], fl[0], PARSEC_DTD_ARG_END); break;
    case 2: parsec_dtd_insert_task(tp, fn[2], t->prio, PARSEC_DEV_CPU, "e2t2", sizeof(int), &t->id, PARSEC_VALUE, sizeof(int), &prank, pflag,
                                   PASSED_BY_REF, tl[0], fl[0], PASSED_BY_REF, tl[1], fl[1], PARSEC_DTD_ARG_END); break;
    case 3: parsec_dtd_insert_task(tp, fn[3], t->prio, PARSEC_DEV_CPU, "e2t3", sizeof(int), &t->id, PARSEC_VALUE, sizeof(int), &prank, pflag,
                                   PASSED_BY_REF, tl[0], fl[0], PASSED_BY_REF, tl[1], fl[1], PASSED_BY_REF, tl[2], fl[2], PARSEC_DTD_ARG_END); break;
    default: parsec_dtd_insert_task(tp, fn[4], t->prio, PARSEC_DEV_CPU, "e2t4", sizeof(int), &t->id, PARSEC_VALUE, sizeof(int), &prank, pflag,
                                   PASSED_BY_REF, tl[0], fl[0], PASSED_BY_REF, tl[1], fl[1], PASSED_BY_REF, tl[2], fl[2], PASSED_BY_REF, tl[3], fl[3],
                                   PARSEC_DTD_ARG_END); break;
    }
    VF_TICK();
}

/* ---------------------------------------------------------------- task body */
static int first_use(const task_t *t, int i) {   /* first tracked occurrence of tile[i] in the task */
    if (t->pfl[i] & PF_DONT_TRACK) return 0;
    for (int j = 0; j < i; j++) if (t->tile[j] == t->tile[i] && !(t->pfl[j] & PF_DONT_TRACK)) return 0;
    return 1;
}
static int writes_tile(const task_t *t, int d) {
    for (int j = 0; j < t->np; j++) if (t->tile[j] == d && t->mode[j] != M_R && !(t->pfl[j] & PF_DONT_TRACK)) return 1;
    return 0;
}
static volatile uint64_t sink;
static int body_common(parsec_task_t *this_task, int n) {
    int id = -1, prank = 0; int64_t *p[MAXP] = {0, 0, 0, 0};
    switch (n) {
    case 1: parsec_dtd_unpack_args(this_task, &id, &prank, &p[0]); break;
    case 2: parsec_dtd_unpack_args(this_task, &id, &prank, &p[0], &p[1]); break;
    case 3: parsec_dtd_unpack_args(this_task, &id, &prank, &p[0], &p[1], &p[2]); break;
    default: parsec_dtd_unpack_args(this_task, &id, &prank, &p[0], &p[1], &p[2], &p[3]); break;
    }
    if (id < 0 || id >= NT) { vf_violation("task-bad-id", "body got task id %d", id); return PARSEC_HOOK_RETURN_DONE; }
    task_t *t = &T[id];
    if (__atomic_add_fetch(&ran[id], 1, __ATOMIC_SEQ_CST) != 1) vf_violation("task-ran-twice", "task %d executed more than once on rank %d", id, myrank);
    if (t->rank != myrank) vf_violation("task-wrong-rank", "task %d placed on rank %d ran on rank %d", id, t->rank, myrank);
    ent[id] = vf_stamp();
    /* online exclusion counters (C04) */
    for (int i = 0; i < t->np; i++) {
        if (!first_use(t, i)) continue;
        cnt_t *c = &CNT[t->tile[i]][t->epoch[i]];
        if (writes_tile(t, t->tile[i])) {
            int32_t wprev = __atomic_fetch_add(&c->w, 1, __ATOMIC_SEQ_CST);
            int32_t rnow = __atomic_load_n(&c->r, __ATOMIC_SEQ_CST);
            if (wprev != 0) vf_violation("overlap:W-with-W", "writer task %d entered tile %d while writer task %d was inside (rank %d)", id, t->tile[i], c->cur_writer, myrank);
            if (rnow != 0) vf_violation("overlap:W-with-R", "writer task %d entered tile %d while %d reader(s) were inside, e.g. task %d (rank %d)", id, t->tile[i], rnow, c->some_reader, myrank);
            c->cur_writer = id;
        } else {
            int32_t rprev = __atomic_fetch_add(&c->r, 1, __ATOMIC_SEQ_CST);
            int32_t wnow = __atomic_load_n(&c->w, __ATOMIC_SEQ_CST);
            c->some_reader = id;
            if (wnow != 0) vf_violation("overlap:R-with-W", "reader task %d entered tile %d while writer task %d was inside (rank %d)", id, t->tile[i], c->cur_writer, myrank);
            if (rprev > 0) {
                __atomic_add_fetch(&n_reader_overlap_online, 1, __ATOMIC_RELAXED);
                int64_t m = max_conc_readers; while (rprev + 1 > m && !__atomic_compare_exchange_n(&max_conc_readers, &m, rprev + 1, 0, __ATOMIC_RELAXED, __ATOMIC_RELAXED)) ;
            }
        }
    }
    /* reads */
    int64_t acc = id;
    for (int k = 0; k < t->np; k++) {
        obs[id][k] = V_NONE;
        if (t->pfl[k] & PF_DONT_TRACK) { if (p[k]) sink += (uint64_t)__atomic_load_n(&p[k][0], __ATOMIC_RELAXED); continue; }
        if (!p[k]) { __atomic_or_fetch(&nullmask[id], 1 << k, __ATOMIC_RELAXED); continue; }
        if (t->mode[k] == M_W) continue;
        int torn = 0; int64_t v = tile_read(p[k], &torn);
        if (torn) __atomic_or_fetch(&tornmask[id], 1 << k, __ATOMIC_RELAXED);
        obs[id][k] = v; acc = (int64_t)vf_mix((uint64_t)acc, (uint64_t)v);
    }
    if (t->sleep_us > 0) usleep(t->sleep_us);
    /* tasks inserting tasks */
    for (int c = 1; c <= t->nchild; c++) insert_task(&T[id + c]);
    /* writes */
    for (int k = 0; k < t->np; k++) {
        wrote[id][k] = V_NONE;
        if ((t->pfl[k] & PF_DONT_TRACK) || t->mode[k] == M_R || !p[k]) continue;
        int64_t nv = (int64_t)vf_mix((uint64_t)acc, (uint64_t)k);
        tile_write(p[k], nv); wrote[id][k] = nv;
    }
    for (int i = 0; i < t->np; i++) {
        if (!first_use(t, i)) continue;
        cnt_t *c = &CNT[t->tile[i]][t->epoch[i]];
        if (writes_tile(t, t->tile[i])) __atomic_fetch_sub(&c->w, 1, __ATOMIC_SEQ_CST); else __atomic_fetch_sub(&c->r, 1, __ATOMIC_SEQ_CST);
    }
    ext[id] = vf_stamp();
    VF_TICK();
    return PARSEC_HOOK_RETURN_DONE;
}
static int body1(parsec_execution_stream_t *es, parsec_task_t *t) { (void)es; return body_common(t, 1); }
static int body2(parsec_execution_stream_t *es, parsec_task_t *t) { (void)es; return body_common(t, 2); }
static int body3(parsec_execution_stream_t *es, parsec_task_t *t) { (void)es; return body_common(t, 3); }
static int body4(parsec_execution_stream_t *es, parsec_task_t *t) { (void)es; return body_common(t, 4); }

/* ---------------------------------------------------------------- script */
static void die(const char *m) { fprintf(stderr, "c03_dtd: %s\n", m); exit(2); }
static void load_script(const char *path) {
    FILE *f = fopen(path, "r"); if (!f) die("cannot open script");
    char w[64]; int capT = 64, capO = 64, capL = 16;
    T = calloc(capT, sizeof *T); OPS = calloc(capO, sizeof *OPS); TL = calloc(capL, sizeof *TL);
    while (fscanf(f, "%63s", w) == 1) {
        if (!strcmp(w, "E2")) { int v; if (fscanf(f, "%d", &v) != 1) die("E2"); }
        else if (!strcmp(w, "world")) { if (fscanf(f, "%d", &SWORLD) != 1) die("world"); }
        else if (!strcmp(w, "nb")) { if (fscanf(f, "%d", &NB) != 1) die("nb"); }
        else if (!strcmp(w, "tps")) { if (fscanf(f, "%d", &NTP) != 1 || NTP < 1 || NTP > MAXTP) die("tps"); }
        else if (!strcmp(w, "tile")) {
            int g; if (NTL == capL) { capL *= 2; TL = realloc(TL, capL * sizeof *TL); }
            memset(&TL[NTL], 0, sizeof *TL);
            if (fscanf(f, "%d %d %d %d", &g, &TL[NTL].tp, &TL[NTL].kind, &TL[NTL].owner) != 4 || g != NTL) die("tile");
            if (TL[NTL].kind == 0) TL[NTL].lidx = ncoll[TL[NTL].tp]++;
            NTL++;
        } else if (!strcmp(w, "task")) {
            if (NT == capT) { capT *= 2; T = realloc(T, capT * sizeof *T); }
            if (NOPS == capO) { capO *= 2; OPS = realloc(OPS, capO * sizeof *OPS); }
            task_t *t = &T[NT]; memset(t, 0, sizeof *t); t->parent = -1;
            if (fscanf(f, "%d %d %d %d %d %d %d", &t->id, &t->tp, &t->prio, &t->place, &t->sleep_us, &t->nchild, &t->np) != 7 || t->id != NT || t->np < 1 || t->np > MAXP) die("task");
            for (int k = 0; k < t->np; k++) if (fscanf(f, "%d %d %d", &t->tile[k], &t->mode[k], &t->pfl[k]) != 3 || t->tile[k] < 0 || t->tile[k] >= NTL) die("task param");
            OPS[NOPS].kind = OP_TASK; OPS[NOPS].a = NT; NOPS++; NT++;
        } else if (!strcmp(w, "flush") || !strcmp(w, "flushall") || !strcmp(w, "wait") || !strcmp(w, "pause")) {
            if (NOPS == capO) { capO *= 2; OPS = realloc(OPS, capO * sizeof *OPS); }
            memset(&OPS[NOPS], 0, sizeof *OPS);
            OPS[NOPS].kind = !strcmp(w, "flush") ? OP_FLUSH : !strcmp(w, "flushall") ? OP_FLUSHALL : !strcmp(w, "wait") ? OP_WAIT : OP_PAUSE;
            if (fscanf(f, "%d", &OPS[NOPS].a) != 1) die("op arg");
            NOPS++;
        } else if (!strcmp(w, "check")) {
            if (NOPS == capO) { capO *= 2; OPS = realloc(OPS, capO * sizeof *OPS); }
            op_t *o = &OPS[NOPS]; memset(o, 0, sizeof *o); o->kind = OP_CHECK;
            if (fscanf(f, "%d", &o->n) != 1) die("check");
            o->tiles = calloc(o->n + 1, sizeof(int)); o->pyexp = calloc(o->n + 1, sizeof(int64_t));
            for (int i = 0; i < o->n; i++) { long long v; if (fscanf(f, "%d %lld", &o->tiles[i], &v) != 2) die("check item"); o->pyexp[i] = (int64_t)v; }
            NOPS++;
        } else if (!strcmp(w, "end")) break;
        else die("unknown script word");
    }
    fclose(f);
    /* parents of nested tasks */
    for (int i = 0; i < NT; i++) for (int c = 1; c <= T[i].nchild; c++) { if (i + c >= NT) die("nchild overflow"); T[i + c].parent = i; }
}

/* ---------------------------------------------------------------- main */
int main(int argc, char **argv) {
    vf_heartbeat_start(); pthread_create(&stuck_thr, NULL, stuck_main, NULL);
    int prov; MPI_Init_thread(&argc, &argv, MPI_THREAD_SERIALIZED, &prov);
    MPI_Comm_size(MPI_COMM_WORLD, &world); MPI_Comm_rank(MPI_COMM_WORLD, &myrank);
    const char *script = vf_arg(argc, argv, "--script", NULL);
    int cores = (int)vf_arg_ll(argc, argv, "--cores", 4);
    int late_start = (int)vf_arg_ll(argc, argv, "--late-start", 0);
    long long yseed = vf_arg_ll(argc, argv, "--seed", 1);
    int ypm = (int)vf_arg_ll(argc, argv, "--yield", 0), yus = (int)vf_arg_ll(argc, argv, "--yield-us", 0);
    if (!script) die("--script required");
    load_script(script);
    if (SWORLD != world) die("script generated for another number of ranks");

    obs = calloc(NT + 1, sizeof *obs); wrote = calloc(NT + 1, sizeof *wrote); expr = calloc(NT + 1, sizeof *expr); expw = calloc(NT + 1, sizeof *expw);
    ent = calloc(NT + 1, sizeof *ent); ext = calloc(NT + 1, sizeof *ext); ran = calloc(NT + 1, sizeof *ran);
    nullmask = calloc(NT + 1, sizeof *nullmask); tornmask = calloc(NT + 1, sizeof *tornmask);
    for (int i = 0; i < NT; i++) for (int k = 0; k < MAXP; k++) obs[i][k] = wrote[i][k] = V_NONE;

    int pargc = 0; char **pargv = NULL;
    for (int i = 1; i < argc; i++) if (!strcmp(argv[i], "--")) { pargc = argc - i; pargv = argv + i; break; }
    pctx = parsec_init(cores, &pargc, &pargv);
    if (!pctx) die("parsec_init failed");
    VF_TICK();
    if (ypm > 0) vf_yield_config((uint64_t)yseed * 7919 + myrank, ypm, yus, (1ULL << PARSEC_VERIF_SITE_DTD) | (1ULL << PARSEC_VERIF_SITE_SCHEDULING));

    /* PINS callbacks on every computing stream */
    parsec_pins_enable_mask = ~0ULL;
    for (int v = 0; v < pctx->nb_vp; v++) NES += pctx->virtual_processes[v]->nb_cores;
    ESCB = calloc(NES + 1, sizeof *ESCB);
    for (int v = 0, e = 0; v < pctx->nb_vp; v++) for (int c = 0; c < pctx->virtual_processes[v]->nb_cores; c++, e++) {
        parsec_execution_stream_t *es = pctx->virtual_processes[v]->execution_streams[c];
        parsec_pins_register_callback(es, PREPARE_INPUT_BEGIN, cb_prepare, &ESCB[e].prep);
        parsec_pins_register_callback(es, EXEC_BEGIN, cb_exec, &ESCB[e].exec);
    }

    parsec_arena_datatype_t *adt = parsec_matrix_adt_new_rect(parsec_datatype_int64_t, NB, 1, NB);
    parsec_dtd_attach_arena_datatype(pctx, adt, &TILE_FULL);

    /* sequential model state */
    int64_t *model = calloc(NTL + 1, sizeof *model); int *mtaint = calloc(NTL + 1, sizeof(int));
    int *lastw = calloc(NTL + 1, sizeof(int)), *lastwk = calloc(NTL + 1, sizeof(int));
    for (int g = 0; g < NTL; g++) { model[g] = V_NONE; lastw[g] = -1; }

    for (int k = 0; k < NTP; k++) {
        TP[k] = parsec_dtd_taskpool_new();
        int n = ncoll[k] > 0 ? ncoll[k] : 1;
        parsec_matrix_block_cyclic_t *m = calloc(1, sizeof *m);
        parsec_matrix_block_cyclic_init(m, PARSEC_MATRIX_DOUBLE, PARSEC_MATRIX_TILE, myrank, NB, 1, NB * n, 1, 0, 0, NB * n, 1, world, 1, 1, 1, 0, 0);
        m->mat = parsec_data_allocate((size_t)m->super.nb_local_tiles * m->super.bsiz * sizeof(int64_t));
        MAT[k] = m; DC[k] = (parsec_data_collection_t *)m;
        char nm[8]; snprintf(nm, sizeof nm, "A%d", k); parsec_data_collection_set_key(DC[k], nm);
        parsec_dtd_data_collection_init(DC[k]);
        VF_TICK();
    }
    for (int g = 0; g < NTL; g++) if (TL[g].kind == 0) {
        parsec_data_collection_t *A = DC[TL[g].tp];
        int o = (int)A->rank_of(A, TL[g].lidx, 0);
        if (o != TL[g].owner) die("generator and collection disagree on tile owner");
        model[g] = (int64_t)vf_mix(0x5eed, (uint64_t)g + 1000);
        if (o == myrank) tile_write(coll_ptr(g), model[g]);
    }
    for (int k = 0; k < NTP; k++) parsec_context_add_taskpool(pctx, TP[k]);
    for (int g = 0; g < NTL; g++) if (TL[g].kind == 1) TL[g].nt = parsec_dtd_tile_new(TP[TL[g].tp], TL[g].owner % world);

    /* ---------- oracle pass (identical on every rank): expected reads/writes, executing rank, copy epochs, taints */
    EP = calloc(NTL + 1, sizeof *EP); for (int g = 0; g < NTL; g++) EP[g] = calloc(world + 1, sizeof(int));
    int64_t **chkexp = calloc(NOPS + 1, sizeof(int64_t *)); int **chklw = calloc(NOPS + 1, sizeof(int *)), **chklwk = calloc(NOPS + 1, sizeof(int *));
    int64_t **chkprev = calloc(NOPS + 1, sizeof(int64_t *));
    int *flushed_since = calloc(NTL + 1, sizeof(int));
    int64_t *ownerval = calloc(NTL + 1, sizeof(int64_t));   /* oracle value of the owner copy at its last check/initialisation */
    for (int g = 0; g < NTL; g++) ownerval[g] = model[g];
    int selfcheck_bad = 0;
    for (int o = 0; o < NOPS; o++) {
        if (OPS[o].kind == OP_TASK) {
            task_t *t = &T[OPS[o].a];
            if (t->place >= 0) t->rank = t->place % world;
            else { int k = -1 - t->place; if (k >= t->np) die("affinity parameter out of range"); t->rank = TL[t->tile[k]].owner % world; }
            for (int i = 0; i < t->np; i++) for (int j = 0; j < i; j++) if (t->tile[i] == t->tile[j] && !(t->pfl[i] & PF_DONT_TRACK) && !(t->pfl[j] & PF_DONT_TRACK)) t->rep = 1;
            int64_t acc = t->id; int taint = 0;
            if (t->rep) {
                char cls[40]; rep_class(t, cls, sizeof cls);
                int f = 0; for (int q = 1; q <= ntaint; q++) if (!strcmp(taintstr[q], cls)) f = q;
                if (!f && ntaint < 62) { ntaint++; snprintf(taintstr[ntaint], sizeof taintstr[0], "%s", cls); f = ntaint; }
                taint = f;
            }
            for (int k = 0; k < t->np; k++) {
                expr[t->id][k] = V_NONE;
                if (t->pfl[k] & PF_DONT_TRACK) continue;
                if (mtaint[t->tile[k]] && !taint) taint = mtaint[t->tile[k]];
                t->epoch[k] = EP[t->tile[k]][t->rank];
                if (t->mode[k] == M_W) continue;
                if (model[t->tile[k]] == V_NONE) die("script reads a new tile before any write");
                expr[t->id][k] = model[t->tile[k]]; acc = (int64_t)vf_mix((uint64_t)acc, (uint64_t)model[t->tile[k]]);
            }
            t->taint = taint;
            for (int k = 0; k < t->np; k++) {
                expw[t->id][k] = V_NONE;
                if ((t->pfl[k] & PF_DONT_TRACK) || t->mode[k] == M_R) continue;
                int g = t->tile[k];
                model[g] = expw[t->id][k] = (int64_t)vf_mix((uint64_t)acc, (uint64_t)k);
                lastw[g] = t->id; lastwk[g] = k; flushed_since[g] = 0;
                if (taint) mtaint[g] = taint;
            }
            /* a write executed on rank r gives every other rank a new copy of the tile at its next access */
            for (int k = 0; k < t->np; k++) if (!(t->pfl[k] & PF_DONT_TRACK) && t->mode[k] != M_R) {
                int g = t->tile[k], seen = 0; for (int j = 0; j < k; j++) if (t->tile[j] == g && t->mode[j] != M_R && !(t->pfl[j] & PF_DONT_TRACK)) seen = 1;
                if (!seen) for (int q = 0; q < world; q++) if (q != t->rank) EP[g][q]++;
            }
        } else if (OPS[o].kind == OP_CHECK) {
            op_t *c = &OPS[o];
            chkexp[o] = calloc(c->n + 1, sizeof(int64_t)); chklw[o] = calloc(c->n + 1, sizeof(int)); chklwk[o] = calloc(c->n + 1, sizeof(int));
            chkprev[o] = calloc(c->n + 1, sizeof(int64_t));
            for (int i = 0; i < c->n; i++) {
                int g = c->tiles[i];
                chkexp[o][i] = model[g]; chklw[o][i] = flushed_since[g] ? -1 : lastw[g]; chklwk[o][i] = lastwk[g]; chkprev[o][i] = ownerval[g];
                if (c->pyexp[i] != model[g]) selfcheck_bad++;
                ownerval[g] = model[g]; flushed_since[g] = 1;
                if (world > 1) for (int q = 0; q < world; q++) EP[g][q]++;   /* after a flush the owner copy is the current one */
            }
        }
    }
    if (selfcheck_bad) { fprintf(stderr, "c03_dtd: generator oracle and harness oracle disagree on %d check values\n", selfcheck_bad); exit(2); }
    CNT = calloc(NTL + 1, sizeof *CNT);
    for (int g = 0; g < NTL; g++) CNT[g] = calloc(EP[g][myrank] + 2, sizeof(cnt_t));

    /* ---------- run the script */
    int64_t **snap = calloc(NOPS + 1, sizeof(int64_t *)); int **snaptorn = calloc(NOPS + 1, sizeof(int *));
    int started = 0, nchecks = 0, nflush = 0, nwaits = 0;
    script_running = 1;
    if (!late_start) { parsec_context_start(pctx); started = 1; }
    for (int o = 0; o < NOPS; o++) {
        op_t *op = &OPS[o];
        switch (op->kind) {
        case OP_TASK: if (T[op->a].parent < 0) insert_task(&T[op->a]); break;
        case OP_FLUSH: {
            int g = op->a; parsec_dtd_tile_t *h = tile_handle(g);
            if (TL[g].kind == 1 && TL[g].owner % world == myrank && !TL[g].nt_retained) { PARSEC_OBJ_RETAIN(h); TL[g].nt_retained = 1; }
            parsec_dtd_data_flush(TP[TL[g].tp], h); nflush++; break; }
        case OP_FLUSHALL: parsec_dtd_data_flush_all(TP[op->a], DC[op->a]); nflush++; break;
        case OP_PAUSE:      /* the inserting thread idles (milliseconds) so that inserted work can drain before the next operation */
            for (int ms = 0; ms < op->a; ms += 10) { usleep(10000); VF_TICK(); }
            break;
        case OP_WAIT:
            if (!started) { parsec_context_start(pctx); started = 1; }
            parsec_taskpool_wait(TP[op->a]); nwaits++; VF_TICK(); break;
        case OP_CHECK:
            snap[o] = calloc(op->n + 1, sizeof(int64_t)); snaptorn[o] = calloc(op->n + 1, sizeof(int));
            for (int i = 0; i < op->n; i++) {
                int g = op->tiles[i]; snap[o][i] = V_NONE;
                if (TL[g].owner % world != myrank) continue;
                int64_t *b = TL[g].kind == 0 ? coll_ptr(g) : (int64_t *)parsec_data_copy_get_ptr(TL[g].nt->data_copy);
                if (!b) { snap[o][i] = V_NONE; snaptorn[o][i] = 2; continue; }
                snap[o][i] = tile_read(b, &snaptorn[o][i]);
            }
            nchecks++; break;
        }
    }
    if (!started) { parsec_context_start(pctx); started = 1; }
    /* new tiles live in their taskpool's private collection: give them back before the taskpool goes (as dtd_test_new_tile does) */
    for (int g = 0; g < NTL; g++) if (TL[g].kind == 1) {
        if (TL[g].nt_retained) PARSEC_OBJ_RELEASE(TL[g].nt);
        parsec_dtd_tile_release(TL[g].nt);
    }
    for (int k = 0; k < NTP; k++) parsec_taskpool_free(TP[k]);
    parsec_context_wait(pctx);
    VF_TICK(); script_running = 0;
    for (int e = 0; e < NES; e++) account_again(&ESCB[e]);

    /* ---------- verdicts */
    /* gather what every task actually wrote (each task ran on one rank) */
    int64_t *wflat = calloc((size_t)(NT + 1) * MAXP, sizeof(int64_t)), *wall = calloc((size_t)(NT + 1) * MAXP, sizeof(int64_t));
    int32_t *ranall = calloc(NT + 1, sizeof(int32_t));
    for (int i = 0; i < NT; i++) for (int k = 0; k < MAXP; k++) wflat[i * MAXP + k] = (ran[i] && wrote[i][k] != V_NONE) ? wrote[i][k] : 0;
    MPI_Allreduce(wflat, wall, NT * MAXP, MPI_INT64_T, MPI_SUM, MPI_COMM_WORLD);
    MPI_Allreduce(ran, ranall, NT, MPI_INT32_T, MPI_SUM, MPI_COMM_WORLD);

    long n_read_cmp = 0, n_read_bad = 0, n_final_cmp = 0, n_final_bad = 0, n_flush_cmp = 0, n_flush_bad = 0, n_notrun = 0, n_null = 0;
    long n_xrank_reads = 0, n_xrank_flush = 0, n_tainted = 0;
    char key[160];
    for (int i = 0; i < NT; i++) {
        task_t *t = &T[i];
        if (myrank == 0 && ranall[i] == 0) { n_notrun++; vf_violation(t->taint ? "task-not-run:tainted" : "task-not-run", "task %d (rank %d) never executed although all waits returned", i, t->rank); }
        if (myrank == 0 && ranall[i] > 1 && ran[i] <= 1) vf_violation("task-ran-twice", "task %d executed %d times over all ranks", i, ranall[i]);
        if (!ran[i]) continue;
        char cls[40] = ""; if (t->rep) rep_class(t, cls, sizeof cls);
        if (nullmask[i]) {
            n_null++;
            if (t->rep) snprintf(key, sizeof key, "same-tile-in-task:%s:null-parameter", cls); else snprintf(key, sizeof key, "null-parameter");
            vf_violation(key, "task %d got a NULL pointer for parameter mask 0x%x (tiles %d %d %d %d)", i, nullmask[i], t->tile[0], t->np > 1 ? t->tile[1] : -1, t->np > 2 ? t->tile[2] : -1, t->np > 3 ? t->tile[3] : -1);
            continue;
        }
        for (int k = 0; k < t->np; k++) {
            if ((t->pfl[k] & PF_DONT_TRACK) || t->mode[k] == M_W) continue;
            n_read_cmp++;
            /* producer of the expected value */
            int prod = -1; for (int j = i - 1; j >= 0 && prod < 0; j--) for (int q = 0; q < T[j].np; q++) if (T[j].tile[q] == t->tile[k] && T[j].mode[q] != M_R && !(T[j].pfl[q] & PF_DONT_TRACK)) { prod = j; break; }
            if (prod >= 0 && T[prod].rank != t->rank) n_xrank_reads++;
            if (t->taint) n_tainted++;
            if (tornmask[i] >> k & 1) {
                snprintf(key, sizeof key, t->taint ? "same-tile-in-task:%s:torn-tile" : "read-torn-tile", taintstr[t->taint]);
                vf_violation(key, "task %d param %d tile %d: buffer is not a consistent tile image (first word %lld)", i, k, t->tile[k], (long long)obs[i][k]);
                n_read_bad++; continue;
            }
            if (obs[i][k] != expr[i][k]) {
                n_read_bad++;
                if (t->rep) snprintf(key, sizeof key, "same-tile-in-task:%s:read-mismatch", cls);
                else if (t->taint) snprintf(key, sizeof key, "same-tile-in-task:%s:downstream-mismatch", taintstr[t->taint]);
                else snprintf(key, sizeof key, "read-mismatch:%s:%s", mname(t->mode[k]), prod < 0 ? "initial-value" : T[prod].rank == t->rank ? "producer-same-rank" : "producer-other-rank");
                /* which earlier value is it? */
                int stale = -2; for (int j = 0; j < i && stale == -2; j++) for (int q = 0; q < T[j].np; q++) if (T[j].tile[q] == t->tile[k] && expw[j][q] == obs[i][k]) { stale = j; break; }
                char stl[64]; if (stale >= 0) snprintf(stl, sizeof stl, "is the older version written by task %d", stale); else snprintf(stl, sizeof stl, "matches no earlier version of this tile");
                vf_violation(key, "task %d (rank %d) param %d tile %d mode %s read %lld, sequential execution gives %lld (written by task %d); observed value %s",
                             i, t->rank, k, t->tile[k], mname(t->mode[k]), (long long)obs[i][k], (long long)expr[i][k], prod, stl);
            }
        }
    }
    for (int o = 0; o < NOPS; o++) if (OPS[o].kind == OP_CHECK) for (int i = 0; i < OPS[o].n; i++) {
        int g = OPS[o].tiles[i];
        if (TL[g].owner % world != myrank) continue;
        int lw = chklw[o][i], tainted = mtaint[g] != 0 && lw >= 0 && T[lw].taint;
        n_final_cmp++;
        if (snaptorn[o][i] || snap[o][i] != chkexp[o][i]) {
            n_final_bad++;
            if (tainted) snprintf(key, sizeof key, "same-tile-in-task:%s:final-mismatch", taintstr[T[lw].taint]);
            else snprintf(key, sizeof key, "final-mismatch:%s", lw < 0 ? "no-writer" : T[lw].rank == myrank ? "last-writer-on-owner" : "last-writer-remote");
            vf_violation(key, "check point %d tile %d (owner rank %d): owner copy holds %lld, sequential execution gives %lld (last writer task %d)%s", o, g, myrank,
                         (long long)snap[o][i], (long long)chkexp[o][i], lw, snaptorn[o][i] ? " [inconsistent tile image]" : "");
        }
        /* C17: against what the last writer actually produced */
        int64_t produced = lw >= 0 ? wall[lw * MAXP + chklwk[o][i]] : chkprev[o][i];
        if (lw >= 0 && (!ranall[lw] || nullmask[lw])) continue;   /* nothing was produced: C03's business */
        if (lw >= 0 && T[lw].rep) {       /* aliasing parameters: the last written parameter wins */
            for (int k = T[lw].np - 1; k >= 0; k--) if (T[lw].tile[k] == g && T[lw].mode[k] != M_R) { produced = wall[lw * MAXP + k]; break; }
        }
        n_flush_cmp++; if (lw >= 0 && T[lw].rank != myrank) n_xrank_flush++;
        if (snaptorn[o][i] || snap[o][i] != produced) {
            n_flush_bad++;
            snprintf(key, sizeof key, "flush-mismatch:%s:%s", lw < 0 ? "no-writer" : T[lw].rank == myrank ? "last-writer-on-owner" : "last-writer-remote", TL[g].kind ? "new-tile" : "collection-tile");
            vf_violation(key, "check point %d tile %d (owner rank %d): after flush+wait the owner copy holds %lld but the last inserted writer (task %d on rank %d) produced %lld", o, g, myrank,
                         (long long)snap[o][i], lw, lw >= 0 ? T[lw].rank : -1, (long long)produced);
        }
    }
    /* offline interval check (C04) per tile and copy epoch on this rank */
    long n_pairs = 0, n_order_bad = 0, n_reader_pairs_overlapped = 0, n_reader_groups = 0, n_reader_groups_overlapped = 0;
    int *rd = calloc(NT + 1, sizeof(int));
    for (int g = 0; g < NTL; g++) {
        int lastW = -1, nrd = 0, ep = -1;
        for (int i = 0; i <= NT; i++) {
            int k = -1, wr = 1, e = -2;
            if (i < NT) {
                if (T[i].rank != myrank || ran[i] != 1) continue;
                for (int q = 0; q < T[i].np; q++) if (T[i].tile[q] == g && first_use(&T[i], q)) { k = q; break; }
                if (k < 0) continue;
                wr = writes_tile(&T[i], g); e = T[i].epoch[k];
            }
            if (e != ep || wr) {   /* the current reader group closes */
                if (nrd >= 2) { n_reader_groups++; int ov = 0; for (int a = 0; a < nrd; a++) for (int b = a + 1; b < nrd; b++) if (ent[rd[a]] < ext[rd[b]] && ent[rd[b]] < ext[rd[a]]) { n_reader_pairs_overlapped++; ov = 1; } n_reader_groups_overlapped += ov; }
            }
            if (i == NT) break;
            if (e != ep) { lastW = -1; nrd = 0; ep = e; }
            if (wr) {
                if (lastW >= 0) { n_pairs++; if (!(ext[lastW] < ent[i])) { n_order_bad++; vf_violation("order:W-before-earlier-W-exit", "tile %d rank %d: writer task %d entered at %llu before earlier-inserted writer task %d exited at %llu", g, myrank, i, (unsigned long long)ent[i], lastW, (unsigned long long)ext[lastW]); } }
                for (int a = 0; a < nrd; a++) { n_pairs++; if (!(ext[rd[a]] < ent[i])) { n_order_bad++; vf_violation("order:W-before-earlier-R-exit", "tile %d rank %d: writer task %d entered at %llu before earlier-inserted reader task %d exited at %llu", g, myrank, i, (unsigned long long)ent[i], rd[a], (unsigned long long)ext[rd[a]]); } }
                lastW = i; nrd = 0;
            } else {
                if (lastW >= 0) { n_pairs++; if (!(ext[lastW] < ent[i])) { n_order_bad++; vf_violation("order:R-before-earlier-W-exit", "tile %d rank %d: reader task %d entered at %llu before earlier-inserted writer task %d exited at %llu", g, myrank, i, (unsigned long long)ent[i], lastW, (unsigned long long)ext[lastW]); } }
                rd[nrd++] = i;
            }
        }
    }
    uint64_t prep = 0, again = 0, wagain = 0, nexec = 0, yh = 0;
    for (int e = 0; e < NES; e++) { prep += ESCB[e].n_prepare; again += ESCB[e].n_again; wagain += ESCB[e].n_writer_again; nexec += ESCB[e].n_exec; }
    yh = vf_yield_hits(PARSEC_VERIF_SITE_DTD);
    long nran = 0; for (int i = 0; i < NT; i++) nran += ran[i] ? 1 : 0;

    long loc[20] = { nran, n_read_cmp, n_read_bad, n_final_cmp, n_final_bad, n_flush_cmp, n_flush_bad, n_pairs, n_order_bad, n_reader_pairs_overlapped,
                     n_reader_groups, n_reader_groups_overlapped, (long)n_reader_overlap_online, (long)again, (long)wagain, (long)prep, (long)yh, n_xrank_reads, n_xrank_flush, n_null };
    long tot[20]; long mx = (long)max_conc_readers, mxall = 0;
    MPI_Reduce(loc, tot, 20, MPI_LONG, MPI_SUM, 0, MPI_COMM_WORLD);
    MPI_Reduce(&mx, &mxall, 1, MPI_LONG, MPI_MAX, 0, MPI_COMM_WORLD);
    int nv = vf_nviolations, nvall = 0; MPI_Reduce(&nv, &nvall, 1, MPI_INT, MPI_SUM, 0, MPI_COMM_WORLD);
    vf_out("{\"type\":\"ranksum\",\"rank\":%d,\"ran\":%ld,\"reads\":%ld,\"again\":%llu}", myrank, nran, n_read_cmp, (unsigned long long)again);
    if (myrank == 0)
        vf_out("{\"type\":\"summary\",\"ranks\":%d,\"tasks\":%d,\"ran\":%ld,\"reads_compared\":%ld,\"read_mismatch\":%ld,\"finals_compared\":%ld,\"final_mismatch\":%ld,"
               "\"flush_compared\":%ld,\"flush_mismatch\":%ld,\"order_pairs\":%ld,\"order_bad\":%ld,\"reader_pairs_overlapped\":%ld,\"reader_groups\":%ld,"
               "\"reader_groups_overlapped\":%ld,\"reader_overlap_online\":%ld,\"max_concurrent_readers\":%ld,\"again\":%ld,\"writer_again\":%ld,\"prepare_input\":%ld,"
               "\"yield_hits\":%ld,\"xrank_reads\":%ld,\"xrank_flush\":%ld,\"null_params\":%ld,\"checks\":%d,\"flushes\":%d,\"waits\":%d,\"violations\":%d,\"tainted_reads\":%ld,"
               "\"sched\":\"%s\",\"window\":%d,\"threshold\":%d,\"cores\":%d}",
               world, NT, tot[0], tot[1], tot[2], tot[3], tot[4], tot[5], tot[6], tot[7], tot[8], tot[9], tot[10], tot[11], tot[12], mxall, tot[13], tot[14], tot[15],
               tot[16], tot[17], tot[18], tot[19], nchecks, nflush, nwaits, nvall, n_tainted,
               parsec_current_scheduler ? parsec_current_scheduler->component->base_version.mca_component_name : "?", parsec_dtd_window_size, parsec_dtd_threshold_size, NES);

    /* ---------- tear down */
    for (int k = 0; k < NTP; k++) {
        parsec_dtd_data_collection_fini(DC[k]);
        parsec_data_free(MAT[k]->mat); parsec_tiled_matrix_destroy(&MAT[k]->super);
    }
    parsec_dtd_free_arena_datatype(pctx, TILE_FULL);
    for (int v = 0; v < pctx->nb_vp; v++) for (int c = 0; c < pctx->virtual_processes[v]->nb_cores; c++) {
        parsec_execution_stream_t *es = pctx->virtual_processes[v]->execution_streams[c]; parsec_pins_next_callback_t *d;
        parsec_pins_unregister_callback(es, PREPARE_INPUT_BEGIN, cb_prepare, &d);
        parsec_pins_unregister_callback(es, EXEC_BEGIN, cb_exec, &d);
    }
    parsec_fini(&pctx);
    vf_heartbeat_stop(); stuck_stop = 1; pthread_join(stuck_thr, NULL);
    MPI_Finalize();
    return nvall ? 1 : 0;
}
