/* C11 — deterministic scenario for the four-counter module's per-process delayed-message list
 * (termdet_fourcounter_module.c: parsec_termdet_fourcounter_msg_dispatch / _msg_dispatch_taskpool / _taskpool_ready).
 *
 * Observation behind it (seen first as a rare deadlock in the threaded simulation c11_fourcounter_mt.c --list-model free):
 * parsec_termdet_fourcounter_msg_dispatch_taskpool() starts with parsec_list_unlock(&delayed_messages) although none of
 * its callers holds that lock on the direct path, and taskpool_ready() calls it from inside its locked iteration and
 * unlocks again at the end.  A thread can therefore release the list lock while ANOTHER thread holds it.
 *
 * Scenario: ONE process, TWO taskpools A and B that use the dynamic detector (each the root, rank 0, of a 2-rank job), one
 * comm thread D, two workers W1 and W2 — every actor and every call is one the runtime makes:
 *   0. an UP message for A arrives before A is ready (parked in the delayed list); many messages for a taskpool that is
 *      not registered yet are parked behind it (they only make W1's unlocked walk long enough to be observed)
 *   1. W1: taskpool_ready(A): locks the list, dispatches A's parked message (the callee unlocks), walks on unlocked
 *   2. D : msg_dispatch(UP for B), B not ready: takes the (now free) lock, re-checks "B not ready", is pre-empted in the
 *          calloc of the delayed-message record (the harness interposes calloc to hold it there)
 *   3. W1: finishes its walk and unlocks the list — releasing the lock D holds
 *   4. W2: taskpool_ready(B): takes the lock, finds nothing for B, unlocks
 *   5. D : resumes, parks the UP for B in the list: B is ready and will never look at the list again.
 * Then the load of both taskpools drops to zero.  Oracle (C11 liveness): every taskpool whose ranks are all idle with no
 * message in transit must terminate.  A terminates; B waits for its child's contribution for ever while that contribution
 * sits in the delayed list -> "liveness:deadlock-after-quiescence:delayed-message-parked-for-ready-taskpool".
 * The interleaving needs W1's walk to outlast D's few instructions; the harness repeats the attempt and reports k/N.
 * (rel flavour only: ASan owns calloc.)
 */
#include "kit.h"
#include "parsec/parsec_config.h"
#include "parsec/parsec_internal.h"
#include "parsec/runtime.h"
#include "parsec/execution_stream.h"
#include "parsec/class/list.h"
#include "parsec/mca/termdet/termdet.h"
#include "parsec/mca/termdet/fourcounter/termdet_fourcounter.h"
#include "parsec/parsec_comm_engine.h"
#include <mpi.h>
#include <semaphore.h>

extern void *__libc_calloc(size_t, size_t);
static volatile int trap_armed = 0; static __thread int is_D = 0;
static sem_t sem_D_paused, sem_D_go;
void *calloc(size_t n, size_t s) {
    void *p = __libc_calloc(n, s);
    if (is_D && trap_armed && n * s == sizeof(parsec_termdet_fourcounter_delayed_msg_t)) {
        trap_armed = 0;
        sem_post(&sem_D_paused);     /* D is inside msg_dispatch, holds the list lock, has re-checked "not ready" */
        sem_wait(&sem_D_go);
    }
    return p;
}

static volatile int cb_count[2]; static parsec_taskpool_t *TP[2]; static volatile int sends;
static int my_send_am(parsec_comm_engine_t *ce, parsec_ce_tag_t tag, int remote, void *addr, size_t size) { (void)ce; (void)tag; (void)remote; (void)addr; (void)size; __atomic_add_fetch(&sends, 1, __ATOMIC_SEQ_CST); return 0; }
static void term_cb(parsec_taskpool_t *tp) { for (int i = 0; i < 2; i++) if (TP[i] == tp) __atomic_add_fetch(&cb_count[i], 1, __ATOMIC_SEQ_CST); }

static parsec_taskpool_t *mk(parsec_context_t *fc) {
    parsec_taskpool_t *tp = PARSEC_OBJ_NEW(parsec_taskpool_t); tp->context = fc; parsec_taskpool_reserve_id(tp);
    parsec_termdet_open_module(tp, "fourcounter"); tp->tdm.module->monitor_taskpool(tp, term_cb);
    tp->tdm.module->taskpool_addto_runtime_actions(tp, 1);    /* the startup pending action */
    parsec_taskpool_register(tp);
    return tp;
}
static void up_from_child(parsec_taskpool_t *tp) {
    parsec_termdet_fourcounter_msg_up_t up; memset(&up, 0, sizeof up); up.msg_type = PARSEC_TERMDET_FOURCOUNTER_MSG_TYPE_UP; up.tp_id = tp->taskpool_id;
    parsec_termdet_fourcounter_msg_dispatch(&parsec_ce, PARSEC_TERMDET_FOURCOUNTER_MSG_TAG, &up, sizeof up, 1, NULL);
}
static void *w1_main(void *a) { (void)a; TP[0]->tdm.module->taskpool_ready(TP[0]); return NULL; }
static sem_t sem_D_start;
static void *d_main(void *a) { (void)a; is_D = 1; sem_wait(&sem_D_start); up_from_child(TP[1]); return NULL; }
static int list_len(int cap) { int n = 0; parsec_list_t *L = &parsec_termdet_fourcounter_delayed_messages; for (parsec_list_item_t *it = PARSEC_LIST_ITERATOR_FIRST(L); it != PARSEC_LIST_ITERATOR_END(L) && n < cap; it = PARSEC_LIST_ITERATOR_NEXT(it)) n++; return n; }
static int parked_for(parsec_taskpool_t *tp) { int n = 0; parsec_list_t *L = &parsec_termdet_fourcounter_delayed_messages; for (parsec_list_item_t *it = PARSEC_LIST_ITERATOR_FIRST(L); it != PARSEC_LIST_ITERATOR_END(L); it = PARSEC_LIST_ITERATOR_NEXT(it)) if (((parsec_termdet_fourcounter_msg_down_t *)((parsec_termdet_fourcounter_delayed_msg_t *)it)->msg)->tp_id == tp->taskpool_id) n++; return n; }

int main(int argc, char **argv) {
    int prov; MPI_Init_thread(&argc, &argv, MPI_THREAD_SERIALIZED, &prov);
    int attempts = (int)vf_arg_ll(argc, argv, "--attempts", 8); long filler = vf_arg_ll(argc, argv, "--filler", 200000);
    cpu_set_t cpus; sched_getaffinity(0, sizeof cpus, &cpus);
    int pargc = 1; char *pargv_[2] = {argv[0], NULL}; char **pargv = pargv_;
    parsec_context_t *real = parsec_init(1, &pargc, &pargv);
    if (!real) { fprintf(stderr, "parsec_init failed\n"); return 2; }
    sched_setaffinity(0, sizeof cpus, &cpus);
    parsec_ce.send_am = my_send_am;
    sem_init(&sem_D_paused, 0, 0); sem_init(&sem_D_go, 0, 0); sem_init(&sem_D_start, 0, 0);
    parsec_context_t *fc = calloc(1, sizeof *fc); fc->my_rank = 0; fc->nb_nodes = 2;
    /* a taskpool id that is reserved but not registered yet: messages for it are parked */
    parsec_taskpool_t *later = PARSEC_OBJ_NEW(parsec_taskpool_t); parsec_taskpool_reserve_id(later);
    int reproduced = 0, window_missed = 0, lock_seen_released = 0, both_terminated = 0;
    vf_heartbeat_start();
    for (int att = 0; att < attempts; att++) {
        cb_count[0] = cb_count[1] = 0;
        TP[0] = mk(fc); TP[1] = mk(fc);
        int base = list_len(1 << 30);
        up_from_child(TP[0]);                                                     /* 0. parked: A is not ready */
        parsec_list_item_t *a1 = PARSEC_LIST_ITERATOR_LAST(&parsec_termdet_fourcounter_delayed_messages);
        parsec_list_item_t *volatile *a1_pred_next = (parsec_list_item_t *volatile *)&a1->list_prev->list_next;
        for (long i = 0; i < filler; i++) up_from_child(later);                   /*    filler behind it */
        if (list_len(1 << 30) != base + 1 + filler || *a1_pred_next != a1) { vf_out("{\"type\":\"harness_error\",\"text\":\"parking failed\"}"); return 2; }
        pthread_t w1, d;
        trap_armed = 1;
        pthread_create(&d, NULL, d_main, NULL);                                   /*    (D exists already and waits for its message) */
        pthread_create(&w1, NULL, w1_main, NULL);                                 /* 1. W1: taskpool_ready(A) */
        while (*a1_pred_next == a1) ;                                             /*    A's message has left the list: W1 is (about to be) past the callee's unlock */
        sem_post(&sem_D_start);                                                   /* 2. D: msg_dispatch(UP for B), B not ready */
        sem_wait(&sem_D_paused);                                                  /*    D holds the list lock and is held in calloc */
        pthread_join(w1, NULL);                                                   /* 3. W1 ends its walk and unlocks */
        int got = parsec_atomic_trylock(&parsec_termdet_fourcounter_delayed_messages.atomic_lock);
        if (got) { lock_seen_released++; parsec_atomic_unlock(&parsec_termdet_fourcounter_delayed_messages.atomic_lock); }
        else { window_missed++; }                                                 /*    W1 had finished before D took the lock: nothing to see in this attempt */
        if (got) TP[1]->tdm.module->taskpool_ready(TP[1]);                        /* 4. W2: taskpool_ready(B) (only possible because the lock was released) */
        sem_post(&sem_D_go);                                                      /* 5. D resumes and parks the message */
        pthread_join(d, NULL);
        if (!got) TP[1]->tdm.module->taskpool_ready(TP[1]);
        /* the rest of both runs: the startup action completes, both roots are idle, their only child has reported */
        for (int i = 0; i < 2; i++) TP[i]->tdm.module->taskpool_addto_runtime_actions(TP[i], -1);
        /* A's second wave: the child answers the DOWN(false) of the first wave with the same counts */
        for (int w = 0; w < 4; w++) for (int i = 0; i < 2; i++) if (!cb_count[i] && TP[i]->tdm.module->taskpool_state(TP[i]) == PARSEC_TERM_TP_IDLE && !(i == 1 && parked_for(TP[1]))) up_from_child(TP[i]);
        int stuck = parked_for(TP[1]);
        if (cb_count[0] == 1 && cb_count[1] == 1) both_terminated++;
        if (cb_count[1] == 0 && stuck > 0) {
            reproduced++;
            if (reproduced == 1)
                vf_violation("liveness:deadlock-after-quiescence:delayed-message-parked-for-ready-taskpool",
                             "two dynamic-termination taskpools in one process: taskpool B (id %u) is ready and idle, its child's UP message sits in the module's delayed-message list "
                             "(%d item for B) and nothing is left to deliver; taskpool A terminated=%d. The list lock held by the comm thread was released by the worker that "
                             "finished taskpool_ready(A) (attempt %d)", TP[1]->taskpool_id, stuck, cb_count[0], att);
        } else if (cb_count[1] != 1 || cb_count[0] != 1) {
            vf_violation("scenario:unexpected-outcome", "callbacks A=%d B=%d parked for B=%d lock released=%d", cb_count[0], cb_count[1], stuck, got);
        }
        /* drop the filler for the next attempt: register + ready the 'later' id would be another scenario; simply leave it and continue */
        for (int i = 0; i < 2; i++) if (cb_count[i] == 1) { TP[i]->tdm.module->unmonitor_taskpool(TP[i]); parsec_taskpool_unregister(TP[i]); }
        VF_TICK();
        if (reproduced) break;
    }
    vf_heartbeat_stop();
    vf_out("{\"type\":\"summary\",\"mode\":\"delayed-list-scenario\",\"attempts_allowed\":%d,\"lock_released_under_holder\":%d,\"window_missed\":%d,\"reproduced\":%d,\"both_terminated\":%d,\"violations\":%d}",
           attempts, lock_seen_released, window_missed, reproduced, both_terminated, vf_nviolations);
    fflush(stdout);
    _exit(vf_nviolations ? 1 : 0);
}
