/* E1 run-time support for generated PTG programs: per-thread event log, instance table (AGAIN counts),
 * test-owned data collection with table-driven placement, tile helpers.  See lib/e1.py. */
#ifndef VF_E1_RT_H
#define VF_E1_RT_H
#include <stdint.h>
#include "parsec.h"
#include "parsec/data_internal.h"
#include "parsec/execution_stream.h"
#include "parsec/parsec_internal.h"

#define VF_MAXP 4
#define VF_MAXF 8

typedef struct vf_rec_s {
    int32_t  tp;              /* taskpool index inside the scenario */
    int32_t  cls;             /* class id of the model */
    int32_t  p[VF_MAXP];
    int32_t  rank, thread;
    int32_t  invocation;      /* 0-based invocation number of this instance (AGAIN re-entries) */
    int32_t  ret;             /* 0 = DONE, 1 = AGAIN */
    uint64_t enter, exit;     /* process-wide logical stamps */
    int64_t  in[VF_MAXF];
    int64_t  out[VF_MAXF];
    uint64_t key;
    int32_t  tile_bad;        /* bit f set: tile of flow f was internally inconsistent at entry */
    int32_t  prio;
    char     keytxt[56];
} vf_rec_t;

extern int vf_ts;                       /* tile size in int64 elements */
extern int vf_mb;                       /* region mode (C18): > 0 = tiles are vf_mb x vf_mb int64 column-major, vf_ts == vf_mb*vf_mb; 0 = off */
extern int vf_nk;                       /* number of keys of the collection */
extern int vf_world, vf_rank;
extern parsec_datatype_t vf_tile_dtt;
extern volatile uint64_t vf_e1_stamp_ctr;

static inline uint64_t vf_e1_stamp(void) { return __atomic_add_fetch(&vf_e1_stamp_ctr, 1, __ATOMIC_SEQ_CST); }

static inline int64_t vf_e1_mix(int64_t a, int64_t b) {
    uint64_t x = (uint64_t)a * 0x9E3779B97F4A7C15ULL ^ ((uint64_t)b + 0x7F4A7C15ULL + ((uint64_t)a << 6) + ((uint64_t)a >> 2));
    x ^= x >> 29; x *= 0xBF58476D1CE4E5B9ULL; x ^= x >> 32; return (int64_t)x;
}

/* body entry: returns NULL when the body must return PARSEC_HOOK_RETURN_AGAIN */
vf_rec_t *vf_e1_enter(parsec_execution_stream_t *es, parsec_task_t *task, int tp, int cls, int np, int p0, int p1, int p2, int p3);
void      vf_e1_exit(vf_rec_t *r);
void      vf_e1_maybe_sleep(vf_rec_t *r);
/* read the tag of a tile (element 0) and verify the whole tile; ptr NULL -> -1 */
int64_t   vf_e1_read(const void *ptr, vf_rec_t *r, int flow);
void      vf_e1_write(void *ptr, int64_t v);
/* region mode (only when vf_mb > 0; used by programs with typed dependencies, C18): returns element (0,0) (on the diagonal, hence
 * part of the full, lower and upper selections) and logs, separately for the strictly-lower, diagonal and strictly-upper
 * partitions of the tile, the tag carried by the partition and whether all its elements are consistent with it.  Never sets
 * tile_bad: which partitions are judged is decided offline from the declared types.  kind 0 = input at entry, 1 = after write. */
int64_t   vf_e1_read_reg(const void *ptr, vf_rec_t *r, int flow, int kind);
/* completion callbacks / scenario stamps */
void      vf_e1_mark(int kind, int a, int b);

#endif
