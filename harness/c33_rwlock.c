/* C33: the runtime read-write lock excludes correctly and makes progress.
 * The lock is the one libparsec exports (configured implementation: phase-fair ticket lock).
 * Monitor (inside the critical sections, harness-owned):
 *   - one atomic occupancy word: readers in the low half, writers in the high half.  A thread adds itself
 *     AFTER it acquired and removes itself BEFORE it releases, so a non-zero conflicting half seen on entry
 *     means another thread really held the lock at that instant (sound).
 *   - a plain two-word datum written by writers (a = x ... b = x) and compared by readers and writers.
 * Modes:  excl    every thread performs its quota of acquisitions in phases with different reader/writer mixes
 *         starve  "aggressor" threads of one class acquire/release continuously until the "victim" threads of the
 *                 other class completed their quota (progress: a waiting thread gets the lock while the others keep
 *                 releasing it).  The heartbeat counts victim acquisitions only, so starvation shows as a stall.
 * --prewarm N performs N real uncontended read cycles first (brings the reader ticket counters near their
 * sign change / wrap-around, a state plain usage reaches after 2^23 / 2^24 read acquisitions). */
#include "parsec/parsec_config.h"
#include "parsec/class/parsec_rwlock.h"
#include "kit.h"

#define MAXT 32
#define MAXPH 16
#define WONE (1ULL << 32)

static parsec_atomic_rwlock_t L;
static volatile uint64_t occ;                 /* occupancy word */
static volatile uint64_t da, db;              /* datum protected by the lock (plain accesses) */
static char pad0[128];

typedef struct {
    int nthreads, nphases; long quota; uint64_t seed; int cs_max;
    int mix[MAXPH];                            /* permille of writer acquisitions per phase */
    vf_spinbar_t bar;
    /* per phase results (summed by the main thread after the barrier) */
    volatile long racq[MAXPH], wacq[MAXPH], shared[MAXPH], rcont[MAXPH], wcont[MAXPH], maxr[MAXPH];
    long done_quota[MAXT];
} excl_t;
static excl_t E;

static void bail(void) { if (vf_nviolations) { fflush(stdout); _exit(1); } }
static inline void cs_body(vf_rng_t *rng, int cs_max) {
    int n = cs_max ? (int)vf_randn(rng, cs_max) : 0;
    for (volatile int i = 0; i < n; i++) ;
    if (cs_max && vf_randn(rng, 64) == 0) sched_yield();
}

/* one read acquisition; returns 0 on violation */
static inline int do_read(int tid, vf_rng_t *rng, int cs_max, long *shared, long *cont, long *maxr) {
    uint64_t pre = occ;
    if (pre >> 32) (*cont)++;                                   /* a writer is inside: we will have to wait */
    parsec_atomic_rwlock_rdlock(&L);
    uint64_t old = __atomic_fetch_add(&occ, 1, __ATOMIC_SEQ_CST);
    if (old >> 32) { vf_violation("rwlock:reader-with-writer", "thread %d entered as reader while %d writer(s) and %d reader(s) were inside", tid, (int)(old >> 32), (int)(old & 0xffffffff)); }
    if (old & 0xffffffff) { (*shared)++; if ((long)(old & 0xffffffff) + 1 > *maxr) *maxr = (long)(old & 0xffffffff) + 1; }
    uint64_t a = da; cs_body(rng, cs_max); uint64_t b = db;
    if (a != b) vf_violation("rwlock:reader-saw-torn-write", "thread %d read the protected pair as %llu/%llu inside a read section", tid, (unsigned long long)a, (unsigned long long)b);
    bail();
    __atomic_fetch_sub(&occ, 1, __ATOMIC_SEQ_CST);
    parsec_atomic_rwlock_rdunlock(&L);
    return vf_nviolations == 0;
}
static inline int do_write(int tid, vf_rng_t *rng, int cs_max, long *cont) {
    uint64_t pre = occ;
    if (pre) (*cont)++;
    parsec_atomic_rwlock_wrlock(&L);
    uint64_t old = __atomic_fetch_add(&occ, WONE, __ATOMIC_SEQ_CST);
    if (old >> 32) vf_violation("rwlock:two-writers", "thread %d entered as writer while %d writer(s) were inside", tid, (int)(old >> 32));
    else if (old & 0xffffffff) vf_violation("rwlock:writer-with-reader", "thread %d entered as writer while %d reader(s) were inside", tid, (int)(old & 0xffffffff));
    if (da != db) vf_violation("rwlock:writer-saw-torn-write", "thread %d found the protected pair torn (%llu/%llu) on write entry", tid, (unsigned long long)da, (unsigned long long)db);
    uint64_t x = da + 1; da = x; cs_body(rng, cs_max); db = x;
    bail();
    __atomic_fetch_sub(&occ, WONE, __ATOMIC_SEQ_CST);
    parsec_atomic_rwlock_wrunlock(&L);
    return vf_nviolations == 0;
}

static void excl_worker(int tid, int nt, void *arg) {
    (void)arg; (void)nt; vf_rng_t rng; vf_rng_seed(&rng, E.seed, tid + 1);
    for (int ph = 0; ph < E.nphases; ph++) {
        vf_spinbar_wait(&E.bar);
        long ra = 0, wa = 0, sh = 0, rc = 0, wc = 0, mr = 0;
        for (long k = 0; k < E.quota && !vf_nviolations; k++) {
            if (vf_chance(&rng, E.mix[ph])) { do_write(tid, &rng, E.cs_max, &wc); wa++; }
            else { do_read(tid, &rng, E.cs_max, &sh, &rc, &mr); ra++; }
            if ((k & 255) == 0) VF_TICK();
        }
        __sync_fetch_and_add(&E.racq[ph], ra); __sync_fetch_and_add(&E.wacq[ph], wa); __sync_fetch_and_add(&E.shared[ph], sh);
        __sync_fetch_and_add(&E.rcont[ph], rc); __sync_fetch_and_add(&E.wcont[ph], wc);
        for (;;) { long cur = E.maxr[ph]; if (mr <= cur || __sync_bool_compare_and_swap(&E.maxr[ph], cur, mr)) break; }
        E.done_quota[tid] += ra + wa;
        vf_spinbar_wait(&E.bar);
    }
}

static void prewarm(long n) {
    for (long i = 0; i < n; i++) { parsec_atomic_rwlock_rdlock(&L); parsec_atomic_rwlock_rdunlock(&L); if ((i & 0xfffff) == 0) VF_TICK(); }
}

static int run_excl(int argc, char **argv) {
    E.nthreads = (int)vf_arg_ll(argc, argv, "--threads", 8); if (E.nthreads > MAXT) E.nthreads = MAXT;
    E.quota = vf_arg_ll(argc, argv, "--quota", 2000);
    E.seed = (uint64_t)vf_arg_ll(argc, argv, "--seed", 1);
    E.cs_max = (int)vf_arg_ll(argc, argv, "--cs", 200);
    const char *mixes = vf_arg(argc, argv, "--mix", "1000,0,500,100,900,20");
    E.nphases = 0;
    { char buf[256]; strncpy(buf, mixes, 255); buf[255] = 0; for (char *t = strtok(buf, ","); t && E.nphases < MAXPH; t = strtok(NULL, ",")) E.mix[E.nphases++] = atoi(t); }
    vf_spinbar_init(&E.bar, E.nthreads);
    vf_team_run(E.nthreads, excl_worker, NULL);
    long tot = 0; for (int t = 0; t < E.nthreads; t++) tot += E.done_quota[t];
    if (!vf_nviolations && tot != (long)E.nthreads * E.quota * E.nphases)
        vf_violation("rwlock:quota-incomplete", "threads completed %ld of %ld acquisitions", tot, (long)E.nthreads * E.quota * E.nphases);
    if (occ != 0 && !vf_nviolations) vf_violation("rwlock:occupancy-nonzero-at-end", "occupancy word is %llx after all threads left", (unsigned long long)occ);
    for (int ph = 0; ph < E.nphases; ph++)
        vf_out("{\"type\":\"phase\",\"mode\":\"excl\",\"threads\":%d,\"mix\":%d,\"racq\":%ld,\"wacq\":%ld,\"shared\":%ld,\"rcont\":%ld,\"wcont\":%ld,\"max_readers\":%ld}",
               E.nthreads, E.mix[ph], E.racq[ph], E.wacq[ph], E.shared[ph], E.rcont[ph], E.wcont[ph], E.maxr[ph]);
    long ra = 0, wa = 0, sh = 0; for (int ph = 0; ph < E.nphases; ph++) { ra += E.racq[ph]; wa += E.wacq[ph]; sh += E.shared[ph]; }
    if (!vf_nviolations && (long)da != wa) vf_violation("rwlock:lost-write", "the counter incremented inside every write section is %llu after %ld write sections", (unsigned long long)da, wa);
    vf_out("{\"type\":\"summary\",\"mode\":\"excl\",\"threads\":%d,\"phases\":%d,\"racq\":%ld,\"wacq\":%ld,\"shared\":%ld,\"writes_seen\":%llu,\"rin\":%d,\"yield_hits\":%llu}",
           E.nthreads, E.nphases, ra, wa, sh, (unsigned long long)da, (int)L.rin, (unsigned long long)vf_yield_hits(PARSEC_VERIF_SITE_RWLOCK));
    return vf_nviolations ? 1 : 0;
}

/* ------------------------------------------------------------------ starvation mode */
typedef struct {
    int nvict, naggr, victim_writes; long quota; uint64_t seed; int cs_max, acs_max;
    volatile int victims_left; volatile long aggr_acq, vict_acq; volatile long max_overtaken;
    volatile long aggr_counter;          /* completed aggressor acquisitions (read by victims, advisory) */
} starve_t;
static starve_t S;

static void starve_worker(int tid, int nt, void *arg) {
    (void)arg; (void)nt; vf_rng_t rng; vf_rng_seed(&rng, S.seed, tid + 50);
    long sh = 0, c = 0, mr = 0;
    if (tid < S.nvict) {
        long maxo = 0;
        for (long k = 0; k < S.quota && !vf_nviolations; k++) {
            long before = S.aggr_counter;
            if (S.victim_writes) do_write(tid, &rng, S.cs_max, &c); else do_read(tid, &rng, S.cs_max, &sh, &c, &mr);
            long over = S.aggr_counter - before; if (over > maxo) maxo = over;
            VF_TICK();
            /* leave the lock alone for a moment so that the aggressors own it again */
            for (volatile int i = 0; i < 50; i++) ;
        }
        __sync_fetch_and_add(&S.vict_acq, S.quota);
        for (;;) { long cur = S.max_overtaken; if (maxo <= cur || __sync_bool_compare_and_swap(&S.max_overtaken, cur, maxo)) break; }
        __sync_fetch_and_sub(&S.victims_left, 1);
    } else {
        long n = 0;
        while (S.victims_left > 0 && !vf_nviolations) {
            if (S.victim_writes) do_read(tid, &rng, S.acs_max, &sh, &c, &mr); else do_write(tid, &rng, S.acs_max, &c);
            n++; __sync_fetch_and_add(&S.aggr_counter, 1);
        }
        __sync_fetch_and_add(&S.aggr_acq, n);
    }
}

static int run_starve(int argc, char **argv) {
    S.nvict = (int)vf_arg_ll(argc, argv, "--victims", 1);
    S.naggr = (int)vf_arg_ll(argc, argv, "--aggressors", 4);
    S.victim_writes = !strcmp(vf_arg(argc, argv, "--victim", "writer"), "writer");
    S.quota = vf_arg_ll(argc, argv, "--quota", 500);
    S.seed = (uint64_t)vf_arg_ll(argc, argv, "--seed", 1);
    S.cs_max = (int)vf_arg_ll(argc, argv, "--cs", 300);
    S.acs_max = (int)vf_arg_ll(argc, argv, "--acs", 3000);
    S.victims_left = S.nvict;
    if (S.nvict + S.naggr > MAXT) return 2;
    vf_team_run(S.nvict + S.naggr, starve_worker, NULL);
    if (occ != 0 && !vf_nviolations) vf_violation("rwlock:occupancy-nonzero-at-end", "occupancy word is %llx after all threads left", (unsigned long long)occ);
    { long w = S.victim_writes ? S.vict_acq : S.aggr_acq;
      if (!vf_nviolations && (long)da != w) vf_violation("rwlock:lost-write", "the counter incremented inside every write section is %llu after %ld write sections", (unsigned long long)da, w); }
    vf_out("{\"type\":\"summary\",\"mode\":\"starve\",\"victim\":\"%s\",\"victims\":%d,\"aggressors\":%d,\"vict_acq\":%ld,\"aggr_acq\":%ld,\"max_overtaken\":%ld,\"yield_hits\":%llu}",
           S.victim_writes ? "writer" : "reader", S.nvict, S.naggr, S.vict_acq, S.aggr_acq, S.max_overtaken, (unsigned long long)vf_yield_hits(PARSEC_VERIF_SITE_RWLOCK));
    return vf_nviolations ? 1 : 0;
}

/* ------------------------------------------------------------------ episodes mode: many short bounded runs from a fresh lock */
#define EP_MAXC 6
typedef struct { int tid, role; uint64_t inv, acq, rel; } ev_t;
typedef struct {
    int nthreads, maxcycles; uint64_t seed; int cs_max;
    vf_spinbar_t bar; volatile int stop; volatile long ep_no;
    ev_t ev[MAXT][EP_MAXC]; int nev[MAXT];
} ep_t;
static ep_t P;
static void ep_worker(int tid, int nt, void *arg) {
    (void)arg; (void)nt; vf_rng_t rng;
    for (;;) {
        vf_spinbar_wait(&P.bar);
        if (P.stop) return;
        vf_rng_seed(&rng, P.seed + (uint64_t)P.ep_no * 2654435761ULL, tid + 1);
        int c = 1 + (int)vf_randn(&rng, (uint32_t)P.maxcycles), wperm = (int[]){500, 200, 800, 1000, 0}[vf_randn(&rng, 5)];
        for (int k = 0; k < c; k++) {
            ev_t *e = &P.ev[tid][k]; e->tid = tid; e->role = vf_chance(&rng, (uint32_t)wperm);
            e->inv = vf_stamp();
            if (e->role) {
                parsec_atomic_rwlock_wrlock(&L);
                uint64_t old = __atomic_fetch_add(&occ, WONE, __ATOMIC_SEQ_CST); e->acq = vf_stamp();
                if (old >> 32) vf_violation("rwlock:two-writers", "episode %ld: thread %d entered as writer while %d writer(s) were inside", P.ep_no, tid, (int)(old >> 32));
                else if (old & 0xffffffff) vf_violation("rwlock:writer-with-reader", "episode %ld: thread %d entered as writer while %d reader(s) were inside", P.ep_no, tid, (int)(old & 0xffffffff));
                uint64_t x = da + 1; da = x; cs_body(&rng, P.cs_max); db = x;
                bail(); e->rel = vf_stamp(); __atomic_fetch_sub(&occ, WONE, __ATOMIC_SEQ_CST);
                parsec_atomic_rwlock_wrunlock(&L);
            } else {
                parsec_atomic_rwlock_rdlock(&L);
                uint64_t old = __atomic_fetch_add(&occ, 1, __ATOMIC_SEQ_CST); e->acq = vf_stamp();
                if (old >> 32) vf_violation("rwlock:reader-with-writer", "episode %ld: thread %d entered as reader while %d writer(s) were inside", P.ep_no, tid, (int)(old >> 32));
                uint64_t a = da; cs_body(&rng, P.cs_max); uint64_t b = db;
                if (a != b) vf_violation("rwlock:reader-saw-torn-write", "episode %ld: thread %d read the protected pair as %llu/%llu", P.ep_no, tid, (unsigned long long)a, (unsigned long long)b);
                bail(); e->rel = vf_stamp(); __atomic_fetch_sub(&occ, 1, __ATOMIC_SEQ_CST);
                parsec_atomic_rwlock_rdunlock(&L);
            }
            VF_TICK();
        }
        P.nev[tid] = c;
        vf_spinbar_wait(&P.bar);
    }
}
static uint64_t *sigset; static size_t sigcap, nsig;
static int sig_add(uint64_t s) {
    if (!s) s = 1;
    size_t i = (size_t)(s % sigcap);
    while (sigset[i]) { if (sigset[i] == s) return 0; i = (i + 1) % sigcap; }
    if (nsig * 2 < sigcap) { sigset[i] = s; nsig++; }
    return 1;
}
static int run_episodes(int argc, char **argv) {
    long nep = vf_arg_ll(argc, argv, "--episodes", 2000);
    P.nthreads = (int)vf_arg_ll(argc, argv, "--threads", 3); if (P.nthreads > MAXT) P.nthreads = MAXT;
    P.maxcycles = (int)vf_arg_ll(argc, argv, "--cycles", 4); if (P.maxcycles > EP_MAXC) P.maxcycles = EP_MAXC;
    P.seed = (uint64_t)vf_arg_ll(argc, argv, "--seed", 1); P.cs_max = (int)vf_arg_ll(argc, argv, "--cs", 100);
    int yp = parsec_verif_yield_permille;
    int ep_keep = (int)vf_arg_ll(argc, argv, "--ep-keep", 0);
    sigcap = 1 << 20; sigset = calloc(sigcap, sizeof(uint64_t));
    vf_spinbar_init(&P.bar, P.nthreads + 1);
    pthread_t th[MAXT]; vf_team_ctx_t cx[MAXT]; pthread_barrier_t pb; pthread_barrier_init(&pb, NULL, (unsigned)P.nthreads);
    for (int i = 0; i < P.nthreads; i++) { cx[i] = (vf_team_ctx_t){ep_worker, NULL, i, P.nthreads, &pb}; pthread_create(&th[i], NULL, vf_team_tramp, &cx[i]); }
    long done = 0, nontrivial = 0, distinct = 0, racq = 0, wacq = 0, samples = 0, writes = 0; vf_rng_t mr; vf_rng_seed(&mr, P.seed, 77);
    for (long ep = 0; ep < nep && !vf_nviolations; ep++) {
        P.ep_no = ep;
        /* fresh lock, aged by a few uncontended cycles so that writer ticket parity (phase id) and reader counts vary */
        /* --ep-keep 1: keep the (pre-warmed) lock across episodes instead of starting from a fresh one, so that the episodes run
         * while the reader ticket counters cross their sign change / wrap-around */
        if (!ep_keep) parsec_atomic_rwlock_init(&L);
        parsec_verif_yield_permille = 0;
        int kw = (int)vf_randn(&mr, 4), kr = (int)vf_randn(&mr, 3);
        for (int k = 0; k < kw; k++) { parsec_atomic_rwlock_wrlock(&L); parsec_atomic_rwlock_wrunlock(&L); }
        for (int k = 0; k < kr; k++) { parsec_atomic_rwlock_rdlock(&L); parsec_atomic_rwlock_rdunlock(&L); }
        parsec_verif_yield_permille = yp;
        vf_spinbar_wait(&P.bar); vf_spinbar_wait(&P.bar);
        if (vf_nviolations) break;
        ev_t all[MAXT * EP_MAXC]; int n = 0; for (int t = 0; t < P.nthreads; t++) for (int k = 0; k < P.nev[t]; k++) all[n++] = P.ev[t][k];
        for (int i = 1; i < n; i++) { int j = i; while (j > 0 && all[j - 1].acq > all[j].acq) { ev_t tmp = all[j]; all[j] = all[j - 1]; all[j - 1] = tmp; j--; } }
        /* offline form of the exclusion oracle on the stamps (acq taken after acquiring, rel before releasing) */
        for (int i = 0; i < n && !vf_nviolations; i++) for (int j = i + 1; j < n; j++) if (all[i].tid != all[j].tid && (all[i].role || all[j].role) && all[j].acq < all[i].rel)
            { vf_violation(all[i].role && all[j].role ? "rwlock:two-writers" : "rwlock:writer-with-reader", "episode %ld: thread %d (%s) held the lock over stamps %llu-%llu, thread %d (%s) over %llu-%llu", ep, all[i].tid, all[i].role ? "writer" : "reader",
                           (unsigned long long)all[i].acq, (unsigned long long)all[i].rel, all[j].tid, all[j].role ? "writer" : "reader", (unsigned long long)all[j].acq, (unsigned long long)all[j].rel); break; }
        int cont = 0; uint64_t sig = vf_mix(0x33, (uint64_t)(kw * 8 + kr));
        for (int i = 0; i < n; i++) { sig = vf_mix(sig, (uint64_t)(all[i].tid * 2 + all[i].role)); if (all[i].role) { wacq++; writes++; } else racq++;
            for (int j = 0; j < n; j++) if (all[i].tid != all[j].tid && (all[i].role || all[j].role) && all[i].inv < all[j].rel && all[j].inv < all[i].rel) cont = 1; }
        done++; if (cont) { nontrivial++; if (sig_add(sig)) distinct++; }
        if (cont && samples < 3 && n >= 5) { samples++; char buf[600]; int p = 0; for (int i = 0; i < n && p < 560; i++) p += snprintf(buf + p, sizeof buf - p, "[t%d %s inv@%llu in@%llu out@%llu] ", all[i].tid, all[i].role ? "W" : "R", (unsigned long long)all[i].inv, (unsigned long long)all[i].acq, (unsigned long long)all[i].rel);
            vf_out("{\"type\":\"episode\",\"pre_write_cycles\":%d,\"pre_read_cycles\":%d,\"events\":\"%s\"}", kw, kr, buf); }
    }
    P.stop = 1; vf_spinbar_wait(&P.bar);
    for (int i = 0; i < P.nthreads; i++) pthread_join(th[i], NULL);
    vf_out("{\"type\":\"summary\",\"mode\":\"episodes\",\"episodes\":%ld,\"nontrivial\":%ld,\"distinct\":%ld,\"racq\":%ld,\"wacq\":%ld,\"threads\":%d,\"yield_hits\":%llu}",
           done, nontrivial, distinct, racq, wacq, P.nthreads, (unsigned long long)vf_yield_hits(PARSEC_VERIF_SITE_RWLOCK));
    return vf_nviolations ? 1 : 0;
}

/* ------------------------------------------------------------------ staged mode
 * --mode staged --readers R : (the lock has been pre-warmed with --prewarm) R readers take the lock and hold it; a writer then
 * asks for it; the readers keep holding for a while AFTER the writer's request was invoked and watch whether the writer gets
 * in; then they leave and the writer must get in.  Repeated --rounds times on the same lock (the reader counters move on by R
 * each round, so the rounds walk across a counter boundary).  No timing verdict: exclusion is judged on the flags. */
static struct { int readers; volatile int held, writer_invoked, writer_in, release; volatile int bad; } G;
static void *staged_reader(void *a) {
    (void)a; parsec_atomic_rwlock_rdlock(&L);
    __atomic_add_fetch(&G.held, 1, __ATOMIC_SEQ_CST);
    while (!__atomic_load_n(&G.writer_invoked, __ATOMIC_SEQ_CST)) sched_yield();
    for (int k = 0; k < 200; k++) { if (__atomic_load_n(&G.writer_in, __ATOMIC_SEQ_CST)) G.bad = 1; sched_yield(); }
    while (!__atomic_load_n(&G.release, __ATOMIC_SEQ_CST)) { if (__atomic_load_n(&G.writer_in, __ATOMIC_SEQ_CST)) G.bad = 1; sched_yield(); }
    if (__atomic_load_n(&G.writer_in, __ATOMIC_SEQ_CST)) G.bad = 1;
    __atomic_sub_fetch(&G.held, 1, __ATOMIC_SEQ_CST);
    parsec_atomic_rwlock_rdunlock(&L); return NULL;
}
static void *staged_writer(void *a) {
    (void)a; while (__atomic_load_n(&G.held, __ATOMIC_SEQ_CST) < G.readers) sched_yield();
    __atomic_store_n(&G.writer_invoked, 1, __ATOMIC_SEQ_CST);
    parsec_atomic_rwlock_wrlock(&L);
    if (__atomic_load_n(&G.held, __ATOMIC_SEQ_CST) > 0) G.bad = 1;       /* readers still inside */
    __atomic_store_n(&G.writer_in, 1, __ATOMIC_SEQ_CST);
    for (int k = 0; k < 50; k++) sched_yield();
    __atomic_store_n(&G.writer_in, 0, __ATOMIC_SEQ_CST);
    parsec_atomic_rwlock_wrunlock(&L); return NULL;
}
static int run_staged(int argc, char **argv) {
    int R = (int)vf_arg_ll(argc, argv, "--readers", 2); long rounds = vf_arg_ll(argc, argv, "--rounds", 8), done = 0;
    if (R > 8) R = 8;
    for (long r = 0; r < rounds && !vf_nviolations; r++) {
        memset((void *)&G, 0, sizeof G); G.readers = R;
        pthread_t rt[8], wt; for (int i = 0; i < R; i++) pthread_create(&rt[i], NULL, staged_reader, NULL);
        pthread_create(&wt, NULL, staged_writer, NULL);
        while (!__atomic_load_n(&G.writer_invoked, __ATOMIC_SEQ_CST)) sched_yield();
        for (int k = 0; k < 400; k++) sched_yield();
        __atomic_store_n(&G.release, 1, __ATOMIC_SEQ_CST);
        for (int i = 0; i < R; i++) pthread_join(rt[i], NULL);
        pthread_join(wt, NULL); done++; VF_TICK();
        if (G.bad) vf_violation("rwlock:writer-with-reader", "staged round %ld: the writer held the lock while %d reader(s) that entered before its request were still inside", r, R);
    }
    vf_out("{\"type\":\"summary\",\"mode\":\"staged\",\"rounds\":%ld,\"readers\":%d,\"yield_hits\":%llu}", done, R, (unsigned long long)vf_yield_hits(PARSEC_VERIF_SITE_RWLOCK));
    return vf_nviolations ? 1 : 0;
}

int main(int argc, char **argv) {
    (void)pad0;
    const char *mode = vf_arg(argc, argv, "--mode", "excl");
    parsec_atomic_rwlock_init(&L);
    vf_heartbeat_start();
    vf_yield_config(0, 0, 0, 0);
    long pw = vf_arg_ll(argc, argv, "--prewarm", 0);
    if (pw > 0) prewarm(pw);
    vf_yield_config((uint64_t)vf_arg_ll(argc, argv, "--seed", 1), (int)vf_arg_ll(argc, argv, "--yield", 0), (int)vf_arg_ll(argc, argv, "--yield-us", 0), 1ULL << PARSEC_VERIF_SITE_RWLOCK);
    int rc = !strcmp(mode, "staged") ? run_staged(argc, argv) : !strcmp(mode, "starve") ? run_starve(argc, argv) : !strcmp(mode, "episodes") ? run_episodes(argc, argv) : run_excl(argc, argv);
    vf_heartbeat_stop();
    return rc;
}
