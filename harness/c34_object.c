/* C34: objects are destroyed exactly once, most derived class first, and only when the last reference goes.
 * Class hierarchies of depth 1..4 are declared here on top of the real object system (three families: every level
 * with constructor+destructor; levels with missing constructors/destructors; a family deriving from the real
 * parsec_list_item_t).  Objects are created by the worker threads (heap: PARSEC_OBJ_NEW, released with free; pool:
 * PARSEC_OBJ_CONSTRUCT on type-stable memory) and then every reference is a "token": a thread claims a floating token
 * of an object (CAS), and while it holds it (the object is then legally alive) it retains (making a second token),
 * passes the token on, or releases it.  Tokens float between threads, so references retained by one thread are
 * released by another.
 * Monitor: shadow token count per object, decremented BEFORE a release is invoked and incremented AFTER a retain
 * returned, so shadow <= true number of outstanding references at all times; a destructor that runs while shadow > 0
 * ran before the last release was even invoked.  Destructor log per object (level sequence, per-level counts, thread).
 * At quiescence after each batch: every level destructor ran exactly once, in most-derived-to-base order.
 * Built twice: -DVF_OBJ_INLINE (parsec_obj_update inlined from the header, with its yield site) and without
 * (parsec_obj_update_not_inline of libparsec). */
#if defined(VF_OBJ_INLINE)
#define BUILDING_PARSEC 1
#endif
#include "parsec/parsec_config.h"
#include "parsec/class/parsec_object.h"
#include "parsec/class/list_item.h"
#include "kit.h"

#define MAXT 32
#define MAXB 1024
#define MAXOPS 48
#define NCLS 12

typedef struct {
    volatile int32_t tokens;      /* shadow: outstanding references (floating + held) */
    volatile int32_t floating;    /* tokens nobody holds right now */
    volatile int32_t budget;      /* retains still allowed on this object */
    volatile int32_t ndtor;       /* destructor calls seen */
    volatile int32_t nctor;
    volatile uint8_t seq[8];      /* levels in the order their destructors ran */
    volatile uint8_t cseq[8];
    volatile int32_t lvl[8];      /* destructor calls per level */
    volatile int32_t nops;
    volatile uint8_t oplog[MAXOPS];
    volatile int32_t dtor_tid;
    volatile int32_t premature;
    int cls, heap;
} rec_t;

static rec_t recs[MAXB];
static parsec_object_t *objs[MAXB];
static __thread int my_tid = -1;

/* ---- the class hierarchies ---- */
typedef struct { parsec_object_t super; int64_t id; int a1; } a1_t;
typedef struct { a1_t super; int a2[3]; } a2_t;
typedef struct { a2_t super; double a3; } a3_t;
typedef struct { a3_t super; char a4[40]; } a4_t;
typedef struct { parsec_object_t super; int64_t id; } b1_t;
typedef struct { b1_t super; int b2; } b2_t;
typedef struct { b2_t super; int b3; } b3_t;
typedef struct { b3_t super; int b4; } b4_t;
typedef struct { parsec_list_item_t super; int64_t id; } c1_t;   /* level 1 = parsec_list_item_t (real class, ctor only) */
typedef struct { c1_t super; int c2; } c2_t;
typedef struct { c2_t super; int c3; } c3_t;
typedef struct { c3_t super; int c4; } c4_t;

static volatile int64_t creating_id[MAXT];   /* id handed to constructors: they run before the id field is set */

static inline void log_ctor(int level) {
    int64_t id = creating_id[my_tid]; rec_t *r = &recs[id];
    int k = __sync_fetch_and_add(&r->nctor, 1); if (k < 8) r->cseq[k] = (uint8_t)level;
}
static inline void log_dtor(int64_t id, int level) {
    if (id < 0 || id >= MAXB) { vf_violation("obj:destructor-on-garbage", "a level-%d destructor ran on an object whose id field is %lld", level, (long long)id); return; }
    rec_t *r = &recs[id];
    int32_t t = r->tokens;
    if (t > 0 && !r->premature) { r->premature = 1;
        vf_violation("obj:destructor-before-last-release", "class %d object %lld: level-%d destructor ran on thread %d while %d reference(s) were still outstanding (their release had not been invoked)", r->cls, (long long)id, level, my_tid, t); }
    int k = __sync_fetch_and_add(&r->ndtor, 1); if (k < 8) r->seq[k] = (uint8_t)level;
    int c = __sync_add_and_fetch(&r->lvl[level], 1);
    if (c > 1) vf_violation("obj:destructor-ran-twice", "class %d object %lld: level-%d destructor ran %d times (thread %d)", r->cls, (long long)id, level, c, my_tid);
    r->dtor_tid = my_tid;
    VF_TICK();
}
#define CT(name, lvl) static void name(parsec_object_t *o) { (void)o; log_ctor(lvl); }
#define DT(name, type, lvl) static void name(parsec_object_t *o) { log_dtor(((type *)o)->id, lvl); }
CT(a1c, 1) CT(a2c, 2) CT(a3c, 3) CT(a4c, 4)
DT(a1d, a1_t, 1) DT(a2d, a1_t, 2) DT(a3d, a1_t, 3) DT(a4d, a1_t, 4)
CT(b3c, 3)
DT(b1d, b1_t, 1) DT(b3d, b1_t, 3) DT(b4d, b1_t, 4)
CT(c2c, 2) CT(c4c, 4)
DT(c2d, c1_t, 2) DT(c3d, c1_t, 3) DT(c4d, c1_t, 4)

PARSEC_OBJ_CLASS_INSTANCE(a1_t, parsec_object_t, a1c, a1d);
PARSEC_OBJ_CLASS_INSTANCE(a2_t, a1_t, a2c, a2d);
PARSEC_OBJ_CLASS_INSTANCE(a3_t, a2_t, a3c, a3d);
PARSEC_OBJ_CLASS_INSTANCE(a4_t, a3_t, a4c, a4d);
PARSEC_OBJ_CLASS_INSTANCE(b1_t, parsec_object_t, NULL, b1d);
PARSEC_OBJ_CLASS_INSTANCE(b2_t, b1_t, NULL, NULL);
PARSEC_OBJ_CLASS_INSTANCE(b3_t, b2_t, b3c, b3d);
PARSEC_OBJ_CLASS_INSTANCE(b4_t, b3_t, NULL, b4d);
PARSEC_OBJ_CLASS_INSTANCE(c1_t, parsec_list_item_t, NULL, NULL);      /* adds nothing: depth 2 in the real tree */
PARSEC_OBJ_CLASS_INSTANCE(c2_t, c1_t, c2c, c2d);
PARSEC_OBJ_CLASS_INSTANCE(c3_t, c2_t, NULL, c3d);
PARSEC_OBJ_CLASS_INSTANCE(c4_t, c3_t, c4c, c4d);

typedef struct { parsec_class_t *cls; const char *name; int depth; int nd; uint8_t dseq[5]; size_t idoff; } clsinfo_t;
static clsinfo_t CL[NCLS] = {
    {&a1_t_class, "a1", 1, 1, {1}, offsetof(a1_t, id)}, {&a2_t_class, "a2", 2, 2, {2, 1}, offsetof(a1_t, id)},
    {&a3_t_class, "a3", 3, 3, {3, 2, 1}, offsetof(a1_t, id)}, {&a4_t_class, "a4", 4, 4, {4, 3, 2, 1}, offsetof(a1_t, id)},
    {&b1_t_class, "b1", 1, 1, {1}, offsetof(b1_t, id)}, {&b2_t_class, "b2", 2, 1, {1}, offsetof(b1_t, id)},
    {&b3_t_class, "b3", 3, 2, {3, 1}, offsetof(b1_t, id)}, {&b4_t_class, "b4", 4, 3, {4, 3, 1}, offsetof(b1_t, id)},
    {&c1_t_class, "c1", 1, 0, {0}, offsetof(c1_t, id)}, {&c2_t_class, "c2", 2, 1, {2}, offsetof(c1_t, id)},
    {&c3_t_class, "c3", 3, 2, {3, 2}, offsetof(c1_t, id)}, {&c4_t_class, "c4", 4, 3, {4, 3, 2}, offsetof(c1_t, id)},
};

/* type-stable memory for the PARSEC_OBJ_CONSTRUCT objects */
typedef union { a4_t a; b4_t b; c4_t c; char pad[192]; } slot_t;
static slot_t *slots;

typedef struct {
    int nthreads, batch; long nbatches; uint64_t seed; int max_retains;
    vf_spinbar_t bar; volatile int stop; volatile long batch_no;
    volatile int32_t finished;                /* objects whose every release call has returned */
    volatile long retains, releases, passes, handovers;
    long dtor_by_thread[MAXT];
} G_t;
static G_t G;
static volatile int32_t inflight[MAXB];      /* release calls invoked and not yet returned */
static volatile int32_t fin_flag[MAXB];
static volatile int8_t last_retainer[MAXB];

static void create_object(int i, vf_rng_t *rng) {
    rec_t *r = &recs[i];
    memset((void *)r, 0, sizeof *r);
    r->cls = (int)vf_randn(rng, NCLS); r->heap = (int)vf_randn(rng, 2);
    r->budget = (int32_t)vf_randn(rng, G.max_retains + 1);
    r->dtor_tid = -1; inflight[i] = 0; fin_flag[i] = 0; last_retainer[i] = -1;
    clsinfo_t *c = &CL[r->cls];
    creating_id[my_tid] = i;
    parsec_object_t *o;
    if (r->heap) {
        o = parsec_obj_new(c->cls);
    } else {
        o = (parsec_object_t *)&slots[i];
        PARSEC_OBJ_CONSTRUCT_WRELEASE_INTERNAL(o, c->cls, &parsec_obj_destruct);
    }
    *(int64_t *)((char *)o + c->idoff) = i;
    objs[i] = o;
    r->tokens = 1;
    __sync_synchronize();
    r->floating = 1;
}

static inline void logop(rec_t *r, int tid, int op) { int k = __sync_fetch_and_add(&r->nops, 1); if (k < MAXOPS) r->oplog[k] = (uint8_t)(tid * 2 + op); }

static void worker(int tid, int nt, void *arg) {
    (void)arg; my_tid = tid; vf_rng_t rng;
    long ret = 0, rel = 0, pas = 0, hov = 0;
    for (;;) {
        vf_spinbar_wait(&G.bar);                         /* batch start */
        if (G.stop) break;
        vf_rng_seed(&rng, G.seed + (uint64_t)G.batch_no * 2654435761ULL, tid + 1);
        for (int i = tid; i < G.batch; i += nt) create_object(i, &rng);
        vf_spinbar_wait(&G.bar);                         /* all objects exist */
        int idle = 0;
        while (G.finished < G.batch && !vf_nviolations) {
            int i = (int)vf_randn(&rng, G.batch); rec_t *r = &recs[i];
            int32_t f = r->floating;
            if (f <= 0 || !__sync_bool_compare_and_swap(&r->floating, f, f - 1)) { if (++idle > 64) { idle = 0; sched_yield(); } continue; }
            idle = 0;
            parsec_object_t *o = objs[i];                /* we hold a reference: the object is alive */
            uint32_t d = vf_randn(&rng, 100);
            int32_t b = r->budget;
            if (d < 45 && b > 0 && __sync_bool_compare_and_swap(&r->budget, b, b - 1)) {
                logop(r, tid, 1);
                PARSEC_OBJ_RETAIN(o);
                __sync_fetch_and_add(&r->tokens, 1);     /* after the call */
                last_retainer[i] = (int8_t)tid;
                __sync_fetch_and_add(&r->floating, 2); ret++;
            } else if (d < 60) {
                __sync_fetch_and_add(&r->floating, 1); pas++;
            } else {
                logop(r, tid, 0);
                if (last_retainer[i] >= 0 && last_retainer[i] != tid) hov++;
                __sync_fetch_and_add(&inflight[i], 1);
                __sync_fetch_and_sub(&r->tokens, 1);     /* before the call */
                PARSEC_OBJ_RELEASE(o); rel++;
                __sync_fetch_and_sub(&inflight[i], 1);
                if (r->tokens == 0 && inflight[i] == 0 && __sync_bool_compare_and_swap(&fin_flag[i], 0, 1))
                    __sync_fetch_and_add(&G.finished, 1);
            }
        }
        vf_spinbar_wait(&G.bar);                         /* batch end: quiescent */
    }
    __sync_fetch_and_add(&G.retains, ret); __sync_fetch_and_add(&G.releases, rel);
    __sync_fetch_and_add(&G.passes, pas); __sync_fetch_and_add(&G.handovers, hov);
}

static uint64_t *sigset; static size_t sigcap, nsig;
static int sig_add(uint64_t s) {
    if (!s) s = 1;
    size_t i = (size_t)(s % sigcap);
    while (sigset[i]) { if (sigset[i] == s) return 0; i = (i + 1) % sigcap; }
    if (nsig * 2 < sigcap) { sigset[i] = s; nsig++; }
    return 1;
}

int main(int argc, char **argv) {
    G.nthreads = (int)vf_arg_ll(argc, argv, "--threads", 8); if (G.nthreads > MAXT) G.nthreads = MAXT;
    G.batch = (int)vf_arg_ll(argc, argv, "--batch", 256); if (G.batch > MAXB) G.batch = MAXB;
    long nobj = vf_arg_ll(argc, argv, "--objects", 10000);
    G.nbatches = (nobj + G.batch - 1) / G.batch;
    G.seed = (uint64_t)vf_arg_ll(argc, argv, "--seed", 1);
    G.max_retains = (int)vf_arg_ll(argc, argv, "--retains", 10); if (G.max_retains > (MAXOPS - 2) / 2) G.max_retains = (MAXOPS - 2) / 2;
    vf_yield_config(G.seed, (int)vf_arg_ll(argc, argv, "--yield", 0), (int)vf_arg_ll(argc, argv, "--yield-us", 0), 1ULL << PARSEC_VERIF_SITE_OBJECT);
    if (posix_memalign((void **)&slots, 64, sizeof(slot_t) * MAXB)) return 2;
    sigcap = 1 << 21; sigset = calloc(sigcap, sizeof(uint64_t));
    vf_heartbeat_start();
    vf_spinbar_init(&G.bar, G.nthreads + 1);
    pthread_t th[MAXT]; vf_team_ctx_t cx[MAXT]; pthread_barrier_t pb; pthread_barrier_init(&pb, NULL, G.nthreads);
    for (int i = 0; i < G.nthreads; i++) { cx[i] = (vf_team_ctx_t){worker, NULL, i, G.nthreads, &pb}; pthread_create(&th[i], NULL, vf_team_tramp, &cx[i]); }
    long judged = 0, nontrivial = 0, distinct = 0, heap = 0, samples = 0, ctor_order_other = 0;
    long by_depth[5] = {0}, by_cls[NCLS] = {0};
    for (long bno = 0; bno < G.nbatches && !vf_nviolations; bno++) {
        G.batch_no = bno; G.finished = 0;
        vf_spinbar_wait(&G.bar); vf_spinbar_wait(&G.bar); vf_spinbar_wait(&G.bar);
        if (vf_nviolations) break;
        for (int i = 0; i < G.batch; i++) {
            rec_t *r = &recs[i]; clsinfo_t *c = &CL[r->cls];
            judged++; heap += r->heap; by_depth[c->depth]++; by_cls[r->cls]++;
            if (r->tokens != 0 || r->floating != 0) { vf_violation("obj:harness-accounting", "object %d ends with %d tokens %d floating", i, r->tokens, r->floating); break; }
            if (r->ndtor < c->nd) { vf_violation("obj:not-destroyed-after-last-release", "class %s object %d (%s): all %d references were released and every release returned, but only %d of %d destructors ran (reference count field now %d)",
                                                 c->name, i, r->heap ? "heap" : "pool", 1 + (r->nops - 1) / 2, r->ndtor, c->nd, r->heap ? -999 : (int)objs[i]->obj_reference_count); break; }
            if (r->ndtor > c->nd) { vf_violation("obj:destructor-ran-twice", "class %s object %d: %d destructor calls for %d destructors", c->name, i, r->ndtor, c->nd); break; }
            int ok = 1; for (int k = 0; k < c->nd; k++) if (r->seq[k] != c->dseq[k]) ok = 0;
            if (!ok) { vf_violation("obj:destructor-order", "class %s (depth %d) object %d: destructors ran in level order %d %d %d %d, expected most derived first %d %d %d %d",
                                    c->name, c->depth, i, r->seq[0], r->seq[1], r->seq[2], r->seq[3], c->dseq[0], c->dseq[1], c->dseq[2], c->dseq[3]); break; }
            for (int k = 1; k < r->nctor && k < 8; k++) if (r->cseq[k] < r->cseq[k - 1]) { ctor_order_other++; break; }
            if (r->dtor_tid >= 0) G.dtor_by_thread[r->dtor_tid]++;
            /* signature and non-triviality: >= 2 threads updated the count and >= 1 retain */
            int n = r->nops < MAXOPS ? r->nops : MAXOPS; uint64_t sig = vf_mix(0x34, (uint64_t)r->cls * 2 + r->heap); int tmask = 0, nret = 0;
            for (int k = 0; k < n; k++) { sig = vf_mix(sig, r->oplog[k]); tmask |= 1 << (r->oplog[k] / 2); nret += r->oplog[k] & 1; }
            if ((tmask & (tmask - 1)) && nret) { nontrivial++; if (sig_add(sig)) distinct++;
                if (samples < 4 && n >= 6) { samples++; char buf[400]; int p = 0;
                    for (int k = 0; k < n && p < 380; k++) p += snprintf(buf + p, sizeof buf - p, "t%d:%s ", r->oplog[k] / 2, (r->oplog[k] & 1) ? "retain" : "release");
                    vf_out("{\"type\":\"object\",\"class\":\"%s\",\"alloc\":\"%s\",\"ops\":\"%s\",\"destructor_levels\":\"%d %d %d %d\",\"destroyed_by\":%d}", c->name, r->heap ? "heap" : "pool", buf, r->seq[0], r->seq[1], r->seq[2], r->seq[3], r->dtor_tid); } }
        }
    }
    G.stop = 1; vf_spinbar_wait(&G.bar);
    for (int i = 0; i < G.nthreads; i++) pthread_join(th[i], NULL);
    vf_heartbeat_stop();
    char win[400]; int p = 0; for (int t = 0; t < G.nthreads && p < 380; t++) p += snprintf(win + p, sizeof win - p, "%s%ld", t ? "," : "", G.dtor_by_thread[t]);
    vf_out("{\"type\":\"summary\",\"objects\":%ld,\"nontrivial\":%ld,\"distinct\":%ld,\"heap\":%ld,\"retains\":%ld,\"releases\":%ld,\"passes\":%ld,\"handover_releases\":%ld,"
           "\"depth1\":%ld,\"depth2\":%ld,\"depth3\":%ld,\"depth4\":%ld,\"threads\":%d,\"destroyed_by_thread\":[%s],\"ctor_order_not_base_first\":%ld,\"yield_hits\":%llu}",
           judged, nontrivial, distinct, heap, G.retains, G.releases, G.passes, G.handovers, by_depth[1], by_depth[2], by_depth[3], by_depth[4], G.nthreads, win, ctor_order_other,
           (unsigned long long)vf_yield_hits(PARSEC_VERIF_SITE_OBJECT));
    return vf_nviolations ? 1 : 0;
}
