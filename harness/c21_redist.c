/* C21: parsec_redistribute (PTG: reshuffle fast path and general path) and parsec_redistribute_dtd copy exactly the
 * requested window.  MPI program (1..4 ranks, T threads), several cases per process, every rank generates the same cases.
 * Source element (i,j) holds 1 + i + 10000*j (global coordinates, padding included), target element (i,j) holds the poison
 * -(2 + i + 10000*j) - 0.25, so the expected content of every target element is a function of its own coordinates:
 * each rank judges its local tiles without any gather.
 * Oracle: target inside the window == source element at the corresponding displacement; every other target element
 * (other tiles, rest of partially covered tiles, padding) still holds its poison; the whole source is unchanged. */
#include "parsec/parsec_config.h"
#include "parsec/runtime.h"
#include "parsec/data_internal.h"
#include "parsec/data_dist/matrix/matrix.h"
#include "parsec/data_dist/matrix/two_dim_rectangle_cyclic.h"
#include "parsec/data_dist/matrix/two_dim_tabular.h"
#include "parsec/data_dist/matrix/sbc.h"
#include <mpi.h>
#include "kit.h"

enum { T_BC, T_TAB, T_SBC };
static const char *tname[] = {"2dbc", "tabular", "sbc"};
typedef struct { int type, P, Q, kp, kq, ip, jq, mb, nb, lm, ln, r, uplo; unsigned seed; } dist_t;
typedef struct {
    int dtd; dist_t Y, T; int size_row, size_col, disi_Y, disj_Y, disi_T, disj_T; int fast, near_fast;
    char desc[420];
} case_t;
typedef struct {
    parsec_matrix_block_cyclic_t bc; parsec_matrix_tabular_t tab; parsec_matrix_sbc_t sbc;
    parsec_tiled_matrix_t *tm; const dist_t *d;
} mat_t;

static int rank, nranks, nthreads;
static parsec_context_t *parsec;
static const case_t *cur;
static long tot_cases, tot_nontrivial, tot_fast, tot_general, tot_dtd, tot_window_elems, tot_checked_elems, tot_src_elems, tot_unaligned, tot_difftile, tot_multi_owner;
static long tot_type[3], tot_near_fast[7];
#define DSET (1u << 16)
static uint64_t dhash[DSET]; static long dn;
static void dset_add(uint64_t h) { if (!h) h = 1; size_t k = h & (DSET - 1); for (unsigned t = 0; t < DSET; t++, k = (k + 1) & (DSET - 1)) { if (dhash[k] == h) return; if (!dhash[k]) { dhash[k] = h; dn++; return; } } }

static inline double srcval(long i, long j) { return 1.0 + (double)i + 10000.0 * (double)j; }
static inline double poison(long i, long j) { return -(2.0 + (double)i + 10000.0 * (double)j) - 0.25; }

static void viol(const case_t *c, const char *oracle, const char *fmt, ...) {
    char key[160], buf[600]; va_list ap; va_start(ap, fmt); vsnprintf(buf, sizeof buf, fmt, ap); va_end(ap);
    snprintf(key, sizeof key, "%s:%s:%s", c->dtd ? "dtd" : "ptg", c->dtd ? "any" : (c->fast ? "reshuffle" : "general"), oracle);
    vf_violation(key, "rank %d: %s | %s", rank, buf, c->desc);
}

/* ---- generation */
static int sbc_r(void) { return nranks == 1 ? 2 : (nranks == 2 ? 2 : (nranks == 3 ? 3 : 0)); }
static void gen_dist(vf_rng_t *r, dist_t *d, int allow_sbc) {
    memset(d, 0, sizeof *d);
    int t = vf_randn(r, 100);
    d->type = t < 62 ? T_BC : (t < 85 || !allow_sbc || !sbc_r() ? T_TAB : T_SBC);
    int f[8], nf = 0; for (int p = 1; p <= nranks; p++) if (nranks % p == 0) f[nf++] = p;
    d->P = f[vf_randn(r, nf)]; d->Q = nranks / d->P; d->kp = d->kq = 1;
    if (vf_chance(r, 300)) { d->kp = 1 + vf_randn(r, 3); d->kq = 1 + vf_randn(r, 3); }
    if (vf_chance(r, 200)) { d->ip = vf_randn(r, d->P); d->jq = vf_randn(r, d->Q); }
    d->mb = 1 + vf_randn(r, 9); d->nb = 1 + vf_randn(r, 9);
    d->lm = 1 + vf_randn(r, 60); d->ln = 1 + vf_randn(r, 60);
    d->seed = 1000 + vf_randn(r, 100000);
    d->r = sbc_r(); d->uplo = PARSEC_MATRIX_LOWER;
    if (d->type == T_SBC) { d->nb = d->mb; if (d->lm < 2 * d->mb) d->lm = 2 * d->mb + vf_randn(r, 30); d->ln = d->lm; }
}
static int padded(int l, int b) { return ((l + b - 1) / b) * b; }

static int gen_case(case_t *c, uint64_t seed, long idx, int dtd_permille) {
    vf_rng_t r; vf_rng_seed(&r, seed * 104729 + 5, (uint64_t)idx);
    memset(c, 0, sizeof *c);
    c->dtd = dtd_permille >= 1000 ? 1 : (dtd_permille <= 0 ? 0 : (idx % 3 == 2 && (idx / 3) % 2 == 0));   /* deterministic share (one case in six), never a fast-path boundary case */
    (void)vf_rand(&r);
    gen_dist(&r, &c->Y, 1); gen_dist(&r, &c->T, 1);
    int mode = vf_randn(&r, 100);            /* <40: same tiles + aligned displacements (fast path); <55: same tiles, unaligned; else anything */
    if (mode < 55) { c->T.mb = c->Y.mb; c->T.nb = c->Y.nb; if (c->T.type == T_SBC || c->Y.type == T_SBC) { c->T.nb = c->T.mb = c->Y.nb = c->Y.mb; } }
    if (c->dtd) {
        /* the DTD implementation inserts and flushes per tile: keep its cases to at most ~120 tiles per side so that one
         * case stays a matter of seconds under the sanitizer (equal tile sizes are kept equal) */
        int same = (c->Y.mb == c->T.mb && c->Y.nb == c->T.nb);
        for (int g = 0; g < 64; g++) {
            long ty = (long)((c->Y.lm + c->Y.mb - 1) / c->Y.mb) * ((c->Y.ln + c->Y.nb - 1) / c->Y.nb), tt = (long)((c->T.lm + c->T.mb - 1) / c->T.mb) * ((c->T.ln + c->T.nb - 1) / c->T.nb);
            if (ty <= 120 && tt <= 120) break;
            if (same || ty > 120) { c->Y.mb++; c->Y.nb++; }
            if (same || tt > 120) { c->T.mb++; c->T.nb++; }
        }
    }
    /* window inside both matrices */
    int maxr = c->Y.lm < c->T.lm ? c->Y.lm : c->T.lm, maxc = c->Y.ln < c->T.ln ? c->Y.ln : c->T.ln;
    c->size_row = 1 + vf_randn(&r, maxr); c->size_col = 1 + vf_randn(&r, maxc);
    c->disi_Y = vf_randn(&r, c->Y.lm - c->size_row + 1); c->disj_Y = vf_randn(&r, c->Y.ln - c->size_col + 1);
    c->disi_T = vf_randn(&r, c->T.lm - c->size_row + 1); c->disj_T = vf_randn(&r, c->T.ln - c->size_col + 1);
    if (mode < 40) { c->disi_Y -= c->disi_Y % c->Y.mb; c->disj_Y -= c->disj_Y % c->Y.nb; c->disi_T -= c->disi_T % c->T.mb; c->disj_T -= c->disj_T % c->T.nb; }
    /* sbc stores one triangle: the window must lie in tiles with m_start >= n_end (lower) */
    for (int w = 0; w < 2; w++) {
        dist_t *d = w ? &c->T : &c->Y; int *di = w ? &c->disi_T : &c->disi_Y, *dj = w ? &c->disj_T : &c->disj_Y;
        if (d->type != T_SBC) continue;
        int ok = 0;
        for (int tries = 0; tries < 60 && !ok; tries++) {
            int n_end = (*dj + c->size_col - 1) / d->nb, m_start = *di / d->mb;
            if (m_start >= n_end && *di + c->size_row <= d->lm && *dj + c->size_col <= d->ln) { ok = 1; break; }
            if (c->size_col > 1 && vf_chance(&r, 500)) c->size_col = 1 + c->size_col / 2; else if (c->size_row > 1) c->size_row = 1 + c->size_row / 2;
            *dj = vf_randn(&r, (d->ln - c->size_col + 1) / 2 + 1);
            int lo = ((*dj + c->size_col - 1) / d->nb) * d->mb;
            if (lo + c->size_row > d->lm) continue;
            *di = lo + vf_randn(&r, d->lm - c->size_row - lo + 1);
            if (mode < 40) { *di -= *di % d->mb; if (*di < lo) *di = lo; *dj -= *dj % d->nb; }
        }
        if (!ok) { d->type = T_BC; }      /* give up on sbc for this side */
    }
    /* the other side may have been invalidated by the shrinking: re-clip */
    if (c->disi_Y + c->size_row > c->Y.lm) c->disi_Y = c->Y.lm - c->size_row;
    if (c->disj_Y + c->size_col > c->Y.ln) c->disj_Y = c->Y.ln - c->size_col;
    if (c->disi_T + c->size_row > c->T.lm) c->disi_T = c->T.lm - c->size_row;
    if (c->disj_T + c->size_col > c->T.ln) c->disj_T = c->T.ln - c->size_col;
    for (int w = 0; w < 2; w++) {          /* final legality check of sbc sides */
        dist_t *d = w ? &c->T : &c->Y; int di = w ? c->disi_T : c->disi_Y, dj = w ? c->disj_T : c->disj_Y;
        if (d->type == T_SBC && !(di / d->mb >= (dj + c->size_col - 1) / d->nb)) d->type = T_BC;
    }
    /* boundary of the path selection: every third case starts from a fast-path configuration (equal tiles, all four
     * displacements on tile boundaries) and breaks exactly ONE of the six conditions of the selection, in rotation */
    if (idx % 3 == 1) {
        if (c->Y.type == T_SBC) c->Y.type = T_BC; if (c->T.type == T_SBC) c->T.type = T_BC;
        int which = (int)((idx / 3 + nranks + nthreads) % 6);
        int mb = 2 + vf_randn(&r, 5), nb = 2 + vf_randn(&r, 5);
        c->Y.mb = c->T.mb = mb; c->Y.nb = c->T.nb = nb;
        if (c->Y.lm < 3 * mb + 2) c->Y.lm = 3 * mb + 2 + vf_randn(&r, 20); if (c->T.lm < 3 * mb + 2) c->T.lm = 3 * mb + 2 + vf_randn(&r, 20);
        if (c->Y.ln < 3 * nb + 2) c->Y.ln = 3 * nb + 2 + vf_randn(&r, 20); if (c->T.ln < 3 * nb + 2) c->T.ln = 3 * nb + 2 + vf_randn(&r, 20);
        int mr = (c->Y.lm < c->T.lm ? c->Y.lm : c->T.lm) - (2 * mb + 1), mc = (c->Y.ln < c->T.ln ? c->Y.ln : c->T.ln) - (2 * nb + 1);
        c->size_row = 1 + vf_randn(&r, mr); c->size_col = 1 + vf_randn(&r, mc);
        /* aligned displacements that leave one tile of slack */
        c->disi_Y = mb * vf_randn(&r, (c->Y.lm - c->size_row - mb) / mb + 1); c->disj_Y = nb * vf_randn(&r, (c->Y.ln - c->size_col - nb) / nb + 1);
        c->disi_T = mb * vf_randn(&r, (c->T.lm - c->size_row - mb) / mb + 1); c->disj_T = nb * vf_randn(&r, (c->T.ln - c->size_col - nb) / nb + 1);
        switch (which) {
        case 0: c->disi_Y += 1 + vf_randn(&r, mb - 1); break;
        case 1: c->disj_Y += 1 + vf_randn(&r, nb - 1); break;
        case 2: c->disi_T += 1 + vf_randn(&r, mb - 1); break;
        case 3: c->disj_T += 1 + vf_randn(&r, nb - 1); break;
        case 4: c->T.mb = mb + 1; break;
        default: c->T.nb = nb + 1; break;
        }
        c->near_fast = 1 + which;
    }
    c->fast = (c->Y.mb == c->T.mb) && (c->Y.nb == c->T.nb) && (c->disi_Y % c->Y.mb == 0) && (c->disj_Y % c->Y.nb == 0) && (c->disi_T % c->T.mb == 0) && (c->disj_T % c->T.nb == 0);
    snprintf(c->desc, sizeof c->desc,
             "impl=%s path=%s%s window=%dx%d Y[%s %dx%d tile %dx%d grid %dx%d k %dx%d off %d,%d seed %u] at (%d,%d) -> T[%s %dx%d tile %dx%d grid %dx%d k %dx%d off %d,%d seed %u] at (%d,%d) ranks=%d threads=%d idx=%ld",
             c->dtd ? "dtd" : "ptg", c->fast ? "reshuffle" : "general", c->near_fast ? "(one fast-path condition broken)" : "", c->size_row, c->size_col,
             tname[c->Y.type], c->Y.lm, c->Y.ln, c->Y.mb, c->Y.nb, c->Y.P, c->Y.Q, c->Y.kp, c->Y.kq, c->Y.ip, c->Y.jq, c->Y.seed, c->disi_Y, c->disj_Y,
             tname[c->T.type], c->T.lm, c->T.ln, c->T.mb, c->T.nb, c->T.P, c->T.Q, c->T.kp, c->T.kq, c->T.ip, c->T.jq, c->T.seed, c->disi_T, c->disj_T, nranks, nthreads, idx);
    return 1;
}

/* ---- matrices */
static int stored(const mat_t *M, int m, int n) { return M->d->type != T_SBC || m >= n; }
static void mat_build(mat_t *M, const dist_t *d) {
    M->d = d;
    if (d->type == T_BC) {
        parsec_matrix_block_cyclic_init(&M->bc, PARSEC_MATRIX_DOUBLE, PARSEC_MATRIX_TILE, rank, d->mb, d->nb, d->lm, d->ln, 0, 0, d->lm, d->ln, d->P, d->Q, d->kp, d->kq, d->ip, d->jq);
        M->tm = &M->bc.super;
        size_t bytes = (size_t)M->tm->nb_local_tiles * M->tm->bsiz * sizeof(double);
        M->bc.mat = parsec_data_allocate(bytes ? bytes : 8);
    } else if (d->type == T_TAB) {
        parsec_matrix_tabular_init(&M->tab, PARSEC_MATRIX_DOUBLE, nranks, rank, d->mb, d->nb, d->lm, d->ln, 0, 0, d->lm, d->ln, NULL);
        parsec_matrix_tabular_set_random_table(&M->tab, d->seed);
        M->tm = &M->tab.super;
    } else {
        int rc = parsec_matrix_sbc_init(&M->sbc, PARSEC_MATRIX_DOUBLE, rank, d->mb, d->nb, d->lm, d->ln, 0, 0, d->lm, d->ln, nranks, d->r, d->uplo);
        if (rc != PARSEC_SUCCESS) { fprintf(stderr, "generator: sbc init failed rc=%d nodes=%d r=%d\n", rc, nranks, d->r); exit(2); }
        M->tm = &M->sbc.super;
        size_t bytes = (size_t)M->tm->nb_local_tiles * M->tm->bsiz * sizeof(double);
        M->sbc.mat = parsec_data_allocate(bytes ? bytes : 8);
    }
}
static void mat_free(mat_t *M) {
    if (M->d->type == T_BC) { parsec_data_free(M->bc.mat); parsec_tiled_matrix_destroy(&M->bc.super); }
    else if (M->d->type == T_TAB) parsec_matrix_tabular_destroy(&M->tab);
    else { parsec_data_free(M->sbc.mat); parsec_tiled_matrix_destroy(&M->sbc.super); }
}
typedef double (*valfn)(long, long);
static long mat_fill(mat_t *M, valfn f, int *owners) {
    parsec_data_collection_t *d = &M->tm->super; long n = 0; int os = 0;
    for (int m = 0; m < M->tm->lmt; m++) for (int nn = 0; nn < M->tm->lnt; nn++) {
        if (!stored(M, m, nn)) continue;
        int o = (int)d->rank_of(d, m, nn); os |= 1 << o;
        if (o != rank) continue;
        double *p = parsec_data_copy_get_ptr(parsec_data_get_copy(d->data_of(d, m, nn), 0));
        for (int jj = 0; jj < M->tm->nb; jj++) for (int ii = 0; ii < M->tm->mb; ii++) { p[(size_t)jj * M->tm->mb + ii] = f((long)m * M->tm->mb + ii, (long)nn * M->tm->nb + jj); n++; }
    }
    if (owners) *owners = __builtin_popcount(os);
    return n;
}

static void run_case(const case_t *c, int sample)
{
    mat_t Y, T; cur = c;
    mat_build(&Y, &c->Y); mat_build(&T, &c->T);
    int ownY = 0, ownT = 0;
    long nsrc = mat_fill(&Y, srcval, &ownY); mat_fill(&T, poison, &ownT);
    MPI_Barrier(MPI_COMM_WORLD);
    int rc;
    if (c->dtd) rc = parsec_redistribute_dtd(parsec, Y.tm, T.tm, c->size_row, c->size_col, c->disi_Y, c->disj_Y, c->disi_T, c->disj_T);
    else rc = parsec_redistribute(parsec, Y.tm, T.tm, c->size_row, c->size_col, c->disi_Y, c->disj_Y, c->disi_T, c->disj_T);
    if (rc != PARSEC_SUCCESS) viol(c, "returned-error", "returned %d for a window inside both matrices", rc);
    MPI_Barrier(MPI_COMM_WORLD);
    /* ---- oracle on the local tiles */
    long checked = 0, inwin = 0; int bad_in = 0, bad_out = 0, bad_src = 0;
    {
        parsec_data_collection_t *d = &T.tm->super; int mb = T.tm->mb, nb = T.tm->nb;
        for (int m = 0; m < T.tm->lmt; m++) for (int n = 0; n < T.tm->lnt; n++) {
            if (!stored(&T, m, n) || (int)d->rank_of(d, m, n) != rank) continue;
            VF_TICK();
            double *p = parsec_data_copy_get_ptr(parsec_data_get_copy(d->data_of(d, m, n), 0));
            for (int jj = 0; jj < nb; jj++) for (int ii = 0; ii < mb; ii++) {
                long gi = (long)m * mb + ii, gj = (long)n * nb + jj; double got = p[(size_t)jj * mb + ii]; checked++;
                int in = gi >= c->disi_T && gi < c->disi_T + c->size_row && gj >= c->disj_T && gj < c->disj_T + c->size_col;
                if (in) {
                    inwin++;
                    double want = srcval(gi - c->disi_T + c->disi_Y, gj - c->disj_T + c->disj_Y);
                    if (got != want && !bad_in++) {
                        if (got == poison(gi, gj)) viol(c, "window-element-not-copied", "target (%ld,%ld) in tile (%d,%d) still holds its poison; expected source (%ld,%ld)", gi, gj, m, n, gi - c->disi_T + c->disi_Y, gj - c->disj_T + c->disj_Y);
                        else { long sj = (long)((got - 1.0) / 10000.0), si = (long)(got - 1.0 - 10000.0 * sj);
                               viol(c, "window-element-wrong", "target (%ld,%ld) in tile (%d,%d) holds %.2f (= source (%ld,%ld) if it is a source value); expected source (%ld,%ld)", gi, gj, m, n, got, si, sj, gi - c->disi_T + c->disi_Y, gj - c->disj_T + c->disj_Y); }
                    }
                } else if (got != poison(gi, gj) && !bad_out++)
                    viol(c, "element-outside-window-changed", "target (%ld,%ld) in tile (%d,%d) (%s) holds %.2f instead of its previous value %.2f; window is [%d,%d)x[%d,%d)", gi, gj, m, n,
                         (gi >= T.tm->lm || gj >= T.tm->ln) ? "padding" : "matrix element", got, poison(gi, gj), c->disi_T, c->disi_T + c->size_row, c->disj_T, c->disj_T + c->size_col);
            }
        }
    }
    {
        parsec_data_collection_t *d = &Y.tm->super; int mb = Y.tm->mb, nb = Y.tm->nb;
        for (int m = 0; m < Y.tm->lmt; m++) for (int n = 0; n < Y.tm->lnt; n++) {
            if (!stored(&Y, m, n) || (int)d->rank_of(d, m, n) != rank) continue;
            double *p = parsec_data_copy_get_ptr(parsec_data_get_copy(d->data_of(d, m, n), 0));
            for (int jj = 0; jj < nb; jj++) for (int ii = 0; ii < mb; ii++) {
                long gi = (long)m * mb + ii, gj = (long)n * nb + jj;
                if (p[(size_t)jj * mb + ii] != srcval(gi, gj) && !bad_src++) viol(c, "source-changed", "source (%ld,%ld) in tile (%d,%d) holds %.2f instead of %.2f", gi, gj, m, n, p[(size_t)jj * mb + ii], srcval(gi, gj));
            }
        }
    }
    long l[2] = {inwin, checked}, g[2]; MPI_Allreduce(l, g, 2, MPI_LONG, MPI_SUM, MPI_COMM_WORLD);
    long wexp = (long)c->size_row * c->size_col;
    if (rank == 0 && g[0] != wexp) { fprintf(stderr, "harness: window elements seen on all ranks %ld != %ld\n", g[0], wexp); vf_violation("harness:window-count", "owners do not cover the window: %ld of %ld | %s", g[0], wexp, c->desc); }
    tot_cases++; tot_window_elems += wexp; tot_checked_elems += g[1]; tot_src_elems += nsrc;
    if (c->dtd) tot_dtd++; else if (c->fast) tot_fast++; else tot_general++;
    if (c->Y.mb != c->T.mb || c->Y.nb != c->T.nb) tot_difftile++;
    if (c->disi_Y % c->Y.mb || c->disj_Y % c->Y.nb || c->disi_T % c->T.mb || c->disj_T % c->T.nb) tot_unaligned++;
    if (ownY >= 2 && ownT >= 2) tot_multi_owner++;
    tot_type[c->Y.type]++; tot_type[c->T.type]++; if (!c->dtd) tot_near_fast[c->near_fast]++;
    int stiles = ((c->disi_Y + c->size_row - 1) / c->Y.mb - c->disi_Y / c->Y.mb + 1) * ((c->disj_Y + c->size_col - 1) / c->Y.nb - c->disj_Y / c->Y.nb + 1);
    int ttiles = ((c->disi_T + c->size_row - 1) / c->T.mb - c->disi_T / c->T.mb + 1) * ((c->disj_T + c->size_col - 1) / c->T.nb - c->disj_T / c->T.nb + 1);
    if (wexp >= 4 && (stiles >= 2 || ttiles >= 2)) { tot_nontrivial++; uint64_t h = 91; for (const char *s = c->desc; *s && strncmp(s, " idx=", 5); s++) h = vf_mix(h, (uint64_t)*s); dset_add(h); }
    if (sample && rank == 0) vf_out("{\"type\":\"sample\",\"case\":\"%s\",\"window_elements\":%ld,\"target_elements_checked_all_ranks\":%ld,\"source_tiles_touched\":%d,\"target_tiles_touched\":%d}", c->desc, wexp, g[1], stiles, ttiles);
    mat_free(&Y); mat_free(&T);
}

void __assert_fail(const char *assertion, const char *file, unsigned int line, const char *function) {
    const char *b = strrchr(file, '/'); b = b ? b + 1 : file;
    fprintf(stderr, "library assertion (%s) failed at %s:%u in %s: recorded, process ends\n", assertion, file, line, function); fflush(stderr);
    if (cur) { char o[160]; snprintf(o, sizeof o, "assert:%s:%s", b, function); viol(cur, o, "assertion `%s' failed at %s:%u", assertion, b, line); }
    fflush(stdout);
    _exit(1);
}

int main(int argc, char **argv)
{
    /* heartbeat from rank 0 only (known before MPI_Init from the launcher's environment): the driver compares the last
     * heartbeat lines textually, and lines of several ranks interleave in changing order.  Every case ends in a
     * collective, so a rank that hangs stops rank 0 at the end of the same case. */
    const char *envrank = getenv("OMPI_COMM_WORLD_RANK"); int hb_on = !envrank || atoi(envrank) == 0;
    if (hb_on) vf_heartbeat_start();
    int prov; MPI_Init_thread(&argc, &argv, MPI_THREAD_SERIALIZED, &prov);
    VF_TICK();
    MPI_Comm_rank(MPI_COMM_WORLD, &rank); MPI_Comm_size(MPI_COMM_WORLD, &nranks);
    nthreads = (int)vf_arg_ll(argc, argv, "--threads", 2);
    long cases = vf_arg_ll(argc, argv, "--cases", 10), start = vf_arg_ll(argc, argv, "--start", 0);
    uint64_t seed = (uint64_t)vf_arg_ll(argc, argv, "--seed", 1);
    int dtd_permille = (int)vf_arg_ll(argc, argv, "--dtd-permille", 200);
    int pargc = 1; char *pargv0[] = {argv[0], NULL}; char **pargv = pargv0;
    parsec = parsec_init(nthreads, &pargc, &pargv);
    if (!parsec) { fprintf(stderr, "parsec_init failed\n"); return 2; }
    VF_TICK();
    case_t c;
    for (long k = start; k < cases; k++) {
        VF_TICK();
        gen_case(&c, seed, k, dtd_permille);
        if (rank == 0) { fprintf(stderr, "VFAT %ld %s\n", k, c.desc); fflush(stderr); }
        run_case(&c, k < start + 2);
    }
    cur = NULL;
    if (hb_on) vf_heartbeat_stop();
    long l = vf_nviolations, g = 0; MPI_Allreduce(&l, &g, 1, MPI_LONG, MPI_SUM, MPI_COMM_WORLD);
    if (rank == 0)
        vf_out("{\"type\":\"summary\",\"cases\":%ld,\"nontrivial\":%ld,\"distinct_nontrivial\":%ld,\"ptg_reshuffle\":%ld,\"ptg_general\":%ld,\"dtd\":%ld,\"window_elements\":%ld,\"target_elements_checked\":%ld,"
               "\"different_tile_sizes\":%ld,\"unaligned_displacement\":%ld,\"multi_owner_both_sides\":%ld,\"side_2dbc\":%ld,\"side_tabular\":%ld,\"side_sbc\":%ld,\"ptg_fast_path_boundary\":{\"disi_Y\":%ld,\"disj_Y\":%ld,\"disi_T\":%ld,\"disj_T\":%ld,\"mb\":%ld,\"nb\":%ld},\"ranks\":%d,\"threads\":%d,\"violations\":%ld}",
               tot_cases, tot_nontrivial, dn, tot_fast, tot_general, tot_dtd, tot_window_elems, tot_checked_elems, tot_difftile, tot_unaligned, tot_multi_owner,
               tot_type[0], tot_type[1], tot_type[2], tot_near_fast[1], tot_near_fast[2], tot_near_fast[3], tot_near_fast[4], tot_near_fast[5], tot_near_fast[6], nranks, nthreads, g);
    parsec_fini(&parsec);
    MPI_Finalize();
    return g ? 1 : 0;
}
