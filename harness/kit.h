/* Harness kit (E4): PRNG, logical stamps, thread team, violation/summary output, heartbeat.
 * Every direct harness is one C file that includes this header.  Output protocol: lines
 * starting with "VF " followed by one JSON object; everything else is ignored by the driver. */
#ifndef VF_KIT_H
#define VF_KIT_H
#ifndef _GNU_SOURCE
#define _GNU_SOURCE
#endif
#include <stdint.h>
#include <stdio.h>
#include <stdlib.h>
#include <string.h>
#include <stdarg.h>
#include <pthread.h>
#include <unistd.h>
#include <sched.h>
#include <time.h>

/* ---------- PRNG ---------- */
typedef struct { uint64_t s; } vf_rng_t;
static inline uint64_t vf_splitmix(uint64_t *x) {
    uint64_t z = (*x += 0x9E3779B97F4A7C15ULL);
    z = (z ^ (z >> 30)) * 0xBF58476D1CE4E5B9ULL;
    z = (z ^ (z >> 27)) * 0x94D049BB133111EBULL;
    return z ^ (z >> 31);
}
static inline void vf_rng_seed(vf_rng_t *r, uint64_t seed, uint64_t stream) {
    uint64_t x = seed * 0x9E3779B97F4A7C15ULL + stream * 0xD1B54A32D192ED03ULL + 12345;
    r->s = vf_splitmix(&x); if (!r->s) r->s = 88172645463325252ULL;
}
static inline uint64_t vf_rand(vf_rng_t *r) {
    uint64_t x = r->s; x ^= x << 13; x ^= x >> 7; x ^= x << 17; r->s = x;
    return x * 0x2545F4914F6CDD1DULL;
}
static inline uint32_t vf_randn(vf_rng_t *r, uint32_t n) { return n ? (uint32_t)((vf_rand(r) >> 33) % n) : 0; }
static inline int vf_chance(vf_rng_t *r, uint32_t permille) { return vf_randn(r, 1000) < permille; }
static inline uint64_t vf_mix(uint64_t a, uint64_t b) {
    uint64_t x = a * 0x9E3779B97F4A7C15ULL ^ (b + 0x7F4A7C15ULL + (a << 6) + (a >> 2));
    x ^= x >> 29; x *= 0xBF58476D1CE4E5B9ULL; x ^= x >> 32; return x;
}

/* ---------- logical time ---------- */
static volatile uint64_t vf_stamp_ctr = 0;
static inline uint64_t vf_stamp(void) { return __atomic_add_fetch(&vf_stamp_ctr, 1, __ATOMIC_SEQ_CST); }

/* ---------- output ---------- */
static pthread_mutex_t vf_out_mtx = PTHREAD_MUTEX_INITIALIZER;
static volatile int vf_nviolations = 0;
static int vf_max_violations_printed = 12;
static void vf_out(const char *fmt, ...) {
    va_list ap; va_start(ap, fmt);
    pthread_mutex_lock(&vf_out_mtx);
    fputs("VF ", stdout); vfprintf(stdout, fmt, ap); fputc('\n', stdout); fflush(stdout);
    pthread_mutex_unlock(&vf_out_mtx);
    va_end(ap);
}
/* key: stable machine key of the oracle/feature class; text: human witness (no quotes/backslashes please) */
static void vf_violation(const char *key, const char *fmt, ...) {
    char buf[1024]; va_list ap; va_start(ap, fmt); vsnprintf(buf, sizeof buf, fmt, ap); va_end(ap);
    for (char *p = buf; *p; p++) if (*p == '"' || *p == '\\' || *p == '\n') *p = ' ';
    int n = __atomic_add_fetch(&vf_nviolations, 1, __ATOMIC_SEQ_CST);
    if (n <= vf_max_violations_printed)
        vf_out("{\"type\":\"violation\",\"key\":\"%s\",\"text\":\"%s\"}", key, buf);
}

/* ---------- arguments ---------- */
static inline const char *vf_arg(int argc, char **argv, const char *name, const char *def) {
    for (int i = 1; i + 1 < argc; i++) if (!strcmp(argv[i], name)) return argv[i + 1];
    return def;
}
static inline long long vf_arg_ll(int argc, char **argv, const char *name, long long def) {
    const char *v = vf_arg(argc, argv, name, NULL); return v ? strtoll(v, NULL, 0) : def;
}
static inline int vf_has_flag(int argc, char **argv, const char *name) {
    for (int i = 1; i < argc; i++) if (!strcmp(argv[i], name)) return 1;
    return 0;
}

/* ---------- heartbeat ---------- */
static volatile uint64_t vf_progress = 0;   /* harness bumps this when a monitored event happens */
static volatile int vf_hb_stop = 0;
static pthread_t vf_hb_thread;
static void *vf_hb_main(void *a) {
    (void)a; int k = 0;
    while (!vf_hb_stop) {
        usleep(100000);
        if (++k % 10 == 0) { fprintf(stderr, "VFHB %llu\n", (unsigned long long)vf_progress); fflush(stderr); }
    }
    return NULL;
}
static inline void vf_heartbeat_start(void) { vf_hb_stop = 0; pthread_create(&vf_hb_thread, NULL, vf_hb_main, NULL); }
static inline void vf_heartbeat_stop(void) { vf_hb_stop = 1; pthread_join(vf_hb_thread, NULL); }
#define VF_TICK() __atomic_add_fetch(&vf_progress, 1, __ATOMIC_RELAXED)

/* ---------- thread team ---------- */
typedef void (*vf_worker_fn)(int tid, int nthreads, void *arg);
typedef struct { vf_worker_fn fn; void *arg; int tid, n; pthread_barrier_t *bar; } vf_team_ctx_t;
static void *vf_team_tramp(void *p) {
    vf_team_ctx_t *c = (vf_team_ctx_t *)p;
    pthread_barrier_wait(c->bar);
    c->fn(c->tid, c->n, c->arg);
    return NULL;
}
static void vf_team_run(int n, vf_worker_fn fn, void *arg) {
    pthread_t th[64]; vf_team_ctx_t cx[64]; pthread_barrier_t bar;
    if (n > 64) n = 64;
    pthread_barrier_init(&bar, NULL, n);
    for (int i = 0; i < n; i++) { cx[i] = (vf_team_ctx_t){fn, arg, i, n, &bar}; pthread_create(&th[i], NULL, vf_team_tramp, &cx[i]); }
    for (int i = 0; i < n; i++) pthread_join(th[i], NULL);
    pthread_barrier_destroy(&bar);
}

/* spin barrier usable inside workers for tight phase alignment */
typedef struct { volatile int count; volatile int sense; int n; } vf_spinbar_t;
static inline void vf_spinbar_init(vf_spinbar_t *b, int n) { b->count = 0; b->sense = 0; b->n = n; }
static inline void vf_spinbar_wait(vf_spinbar_t *b) {
    int s = b->sense;
    if (__atomic_add_fetch(&b->count, 1, __ATOMIC_SEQ_CST) == b->n) { b->count = 0; __atomic_store_n(&b->sense, !s, __ATOMIC_SEQ_CST); }
    else { int k = 0; while (__atomic_load_n(&b->sense, __ATOMIC_SEQ_CST) == s) if (++k > 200) { sched_yield(); } }
}

/* ---------- yield-injection config (hooks in libparsec, guard PARSEC_VERIF) ---------- */
#if defined(PARSEC_VERIF)
#include "parsec/parsec_config.h"
static inline void vf_yield_config(uint64_t seed, int permille, int max_us, uint64_t sites) {
    parsec_verif_yield_seed = seed; parsec_verif_yield_max_us = max_us;
    parsec_verif_yield_sites = sites; parsec_verif_yield_permille = permille;
}
static inline uint64_t vf_yield_hits(int site) { return parsec_verif_yield_hits[site]; }
#endif

static inline double vf_now(void) { struct timespec ts; clock_gettime(CLOCK_MONOTONIC, &ts); return ts.tv_sec + ts.tv_nsec * 1e-9; }

#endif /* VF_KIT_H */
