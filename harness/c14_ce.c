/* C14: the communication engine (parsec_ce, parsec_mpi_funnelled.c) delivers every active message and every
 * one-sided put/get exactly once and intact.
 *
 * Shape: every rank calls parsec_init on >= 2 MPI ranks and NEVER starts the context, so the communication thread
 * stays parked and the main thread is the only caller of parsec_ce (tag_register, enable, send_am, put/get,
 * mem_register, can_serve, progress): the funnelled discipline of the engine.
 *
 * Traffic (all derived from --seed, independent of what is received):
 *   AM   : bursts of active messages on up to 6 user tags, payload a pure function of (src,dst,tag,seq,len); the
 *          first four bytes carry the per (src,dst,tag) sequence number; messages shorter than 4 bytes are anonymous
 *          (counted per length, and take a slot of the sequence).
 *   PUT  : the runtime's own protocol (remote_dep_mpi.c): the receiver registers a destination, sends a request AM
 *          with a copy of its memory handle + callback to the holder, the holder registers a source and calls put().
 *   GET  : every rank publishes handles of constant source regions; any rank may get() them.
 * Oracles: per (src,dst,tag): each seq exactly once, bytes identical, callback order == send order (the engine keeps
 *          its tested window in posting order), sizes <= registered length; every put/get lands exactly the requested
 *          bytes in exactly the selected bytes of the target (guard bytes and stride gaps unchanged, sources
 *          unchanged), every completion callback runs exactly once with the arguments of the call; conservation at
 *          global quiescence (lock-step rounds + allreduce of event counters: logical, not wall-clock).
 */
#include "parsec/parsec_config.h"
#include "parsec/parsec_internal.h"
#include "parsec/runtime.h"
#include "parsec/parsec_comm_engine.h"
#include "parsec/class/list.h"
#include "parsec/utils/mca_param.h"
#include <mpi.h>
#include "kit.h"

#define MAXR 8
#define MAXT 6
#define GUARD 64
#define POISON 0xC3
#define MAXGREG 12
#define HSZ_MAX 256

extern parsec_list_t mpi_funnelled_dynamic_sendreq_fifo, mpi_funnelled_dynamic_recvreq_fifo;

static int me, world;
static uint64_t seed;
static vf_rng_t rng;      /* generation steps only: the traffic a rank originates is a pure function of the seed */
static vf_rng_t cbrng;    /* decisions taken while serving (callbacks, queued puts): their order depends on arrival */

/* ---------------------------------------------------------------- byte streams */
static inline uint8_t stream_byte(uint64_t key, size_t j) { return (uint8_t)(vf_mix(key, j >> 3) >> ((j & 7) * 8)); }
static void stream_fill(uint8_t *p, size_t from, size_t n, uint64_t key) {
    for (size_t j = 0; j < n; ) {
        size_t g = from + j; uint64_t v = vf_mix(key, g >> 3);
        int o = (int)(g & 7);
        for (; o < 8 && j < n; o++, j++) p[j] = (uint8_t)(v >> (o * 8));
    }
}
/* first mismatch or -1 */
static long stream_cmp(const uint8_t *p, size_t from, size_t n, uint64_t key) {
    for (size_t j = 0; j < n; ) {
        size_t g = from + j; uint64_t v = vf_mix(key, g >> 3);
        int o = (int)(g & 7);
        for (; o < 8 && j < n; o++, j++) if (p[j] != (uint8_t)(v >> (o * 8))) return (long)j;
    }
    return -1;
}
static inline uint64_t am_key(int src, int dst, int tagidx, uint32_t seq) {
    return vf_mix(vf_mix(seed ^ 0xA11CEULL, (uint64_t)src * 64 + dst), ((uint64_t)tagidx << 32) | seq);
}
static inline uint64_t tiny_key(int src, int dst, int tagidx, int len) {
    return vf_mix(vf_mix(seed ^ 0x7171ULL, (uint64_t)src * 64 + dst), ((uint64_t)tagidx << 8) | (unsigned)len);
}
static inline uint64_t put_key(int holder, int dest, uint32_t opid) {
    return vf_mix(vf_mix(seed ^ 0x9A7ULL, (uint64_t)holder * 64 + dest), opid);
}
static inline uint64_t get_key(int owner, int region) { return vf_mix(seed ^ 0x6E7ULL, (uint64_t)owner * 64 + region); }

/* ---------------------------------------------------------------- layouts (contiguous or strided byte vectors) */
typedef struct { uint32_t nbytes, blocklen, stride; } layout_t;   /* blocklen==0: contiguous */
static size_t lay_extent(const layout_t *l) {
    if (!l->blocklen || !l->nbytes) return l->nbytes;
    size_t nb = l->nbytes / l->blocklen; return (nb - 1) * (size_t)l->stride + l->blocklen;
}
static void lay_random(layout_t *l, uint32_t nbytes, vf_rng_t *r, int allow_strided) {
    static const uint32_t bl[] = {1, 3, 8, 64, 1000, 4096};
    l->nbytes = nbytes; l->blocklen = 0; l->stride = 0;
    if (allow_strided && nbytes >= 2 && vf_chance(r, 400)) {
        uint32_t b = bl[vf_randn(r, 6)];
        if (nbytes / b > 200000) b = 4096;               /* keep the vector type small enough */
        if (b < nbytes && nbytes / b >= 2) {
            l->nbytes = nbytes - nbytes % b; l->blocklen = b; l->stride = b + 1 + vf_randn(r, 64);
        }
    }
}
static void lay_type(const layout_t *l, MPI_Datatype *dt, int *count, int *owned) {
    if (!l->blocklen || !l->nbytes) { *dt = MPI_BYTE; *count = (int)l->nbytes; *owned = 0; return; }
    MPI_Type_vector((int)(l->nbytes / l->blocklen), (int)l->blocklen, (int)l->stride, MPI_BYTE, dt);
    MPI_Type_commit(dt); *count = 1; *owned = 1;
}
/* a test-owned buffer: [GUARD][disp bytes][extent][GUARD], everything poisoned */
typedef struct { uint8_t *raw; size_t disp, extent, total; layout_t lay; MPI_Datatype dt; int count, dt_owned; } buf_t;
static void buf_make(buf_t *b, const layout_t *l, size_t disp) {
    b->lay = *l; b->disp = disp; b->extent = lay_extent(l); b->total = GUARD + disp + b->extent + GUARD;
    b->raw = (uint8_t *)malloc(b->total); memset(b->raw, POISON, b->total);
    lay_type(l, &b->dt, &b->count, &b->dt_owned);
}
static inline uint8_t *buf_reg_base(buf_t *b) { return b->raw + GUARD; }       /* what is registered; data starts at +disp */
static void buf_fill(buf_t *b, uint64_t key) {
    uint8_t *d = b->raw + GUARD + b->disp;
    if (!b->lay.blocklen) { stream_fill(d, 0, b->lay.nbytes, key); return; }
    size_t nb = b->lay.nbytes / b->lay.blocklen;
    for (size_t i = 0; i < nb; i++) stream_fill(d + i * b->lay.stride, i * b->lay.blocklen, b->lay.blocklen, key);
}
/* returns 0 ok; 1 selected bytes differ from the stream; 2 a byte outside the selection changed */
static int buf_check(buf_t *b, uint64_t key, long *where) {
    uint8_t *d = b->raw + GUARD + b->disp; long m;
    for (size_t i = 0; i < GUARD + b->disp; i++) if (b->raw[i] != POISON) { *where = (long)i - (long)(GUARD + b->disp); return 2; }
    for (size_t i = GUARD + b->disp + b->extent; i < b->total; i++) if (b->raw[i] != POISON) { *where = (long)(i - GUARD - b->disp); return 2; }
    if (!b->lay.blocklen) {
        if ((m = stream_cmp(d, 0, b->lay.nbytes, key)) >= 0) { *where = m; return 1; }
        return 0;
    }
    size_t nb = b->lay.nbytes / b->lay.blocklen;
    for (size_t i = 0; i < nb; i++) {
        if ((m = stream_cmp(d + i * b->lay.stride, i * b->lay.blocklen, b->lay.blocklen, key)) >= 0) { *where = (long)(i * b->lay.stride) + m; return 1; }
        if (i + 1 < nb) for (size_t g = b->lay.blocklen; g < b->lay.stride; g++)
            if (d[i * b->lay.stride + g] != POISON) { *where = (long)(i * b->lay.stride + g); return 2; }
    }
    return 0;
}
static void buf_free(buf_t *b) { if (b->dt_owned) MPI_Type_free(&b->dt); free(b->raw); b->raw = NULL; }

/* ---------------------------------------------------------------- AM state */
static int ntags; static parsec_ce_tag_t utag[MAXT]; static uint32_t maxlen[MAXT];
static parsec_ce_tag_t ctl_tag; static int have_ctl;
typedef struct { uint8_t *seen; size_t cap; uint32_t next; uint64_t nrecv, ntiny[4], bytes, order_breaks; int reported; } rx_t;
typedef struct { uint32_t nsent, ntiny[4]; } tx_t;
static rx_t rx[MAXR][MAXT + 1];          /* [src][tagidx], index ntags.. = ctl */
static tx_t tx[MAXR][MAXT + 1];          /* [dst][tagidx] */
static uint64_t events;                   /* every monitored event: send, callback */
static uint64_t am_sent, am_recv, am_bytes, max_burst, bursts_over_pool, cb_depth_max;
static int in_cb;
static int p_posted, p_tested, p_dyn, p_dynrecv;

#define EVENT() do { events++; VF_TICK(); } while (0)

static void rx_mark(rx_t *r, uint32_t seq, int src, int tagidx, const char *what) {
    if (seq >= r->cap) { size_t nc = r->cap ? r->cap : 1024; while (nc <= seq) nc *= 2; r->seen = realloc(r->seen, nc); memset(r->seen + r->cap, 0, nc - r->cap); r->cap = nc; }
    if (r->seen[seq]) {
        vf_violation("am:duplicate", "%s: rank %d got seq %u from %d on tagidx %d a second time (posted=%d tested=%d)", what, me, seq, src, tagidx, p_posted, p_tested);
        return;
    }
    r->seen[seq] = 1;
    if (seq != r->next) {
        r->order_breaks++;
        if (!r->reported) { r->reported = 1;
            vf_violation("am:fifo", "%s: rank %d got seq %u from %d on tagidx %d while seq %u was next (posted=%d tested=%d)", what, me, seq, src, tagidx, r->next, p_posted, p_tested); }
    }
    r->next = seq + 1;
}

static int echo_permille, totals_frozen; static uint64_t echoes;
static void send_one(int dst, int ti, uint32_t len);
static int other_rank(void);
static int am_cb(parsec_comm_engine_t *ce, parsec_ce_tag_t tag, void *msg, size_t size, int src, void *cb_data) {
    (void)ce; int ti = (int)(intptr_t)cb_data;
    in_cb++; EVENT(); am_recv++; am_bytes += size;
    if (ti < 0 || ti >= ntags || tag != utag[ti]) { vf_violation("am:wrong-tag", "callback of tagidx %d called with tag %lu", ti, (unsigned long)tag); in_cb--; return 1; }
    if (src < 0 || src >= world || src == me) { vf_violation("am:wrong-source", "rank %d: message on tag %lu claims source %d", me, (unsigned long)tag, src); in_cb--; return 1; }
    rx_t *r = &rx[src][ti]; r->nrecv++; r->bytes += size;
    /* a callback may use the engine while it still owns the message (remote_dep_mpi_save_put_cb starts a put, i.e. a
     * send_am, from inside its callback): send first, look at the bytes afterwards */
    if (echo_permille && !totals_frozen && in_cb == 1 && vf_chance(&cbrng, echo_permille)) { echoes++; int d = vf_randn(&cbrng, world - 1); send_one(d >= me ? d + 1 : d, (int)vf_randn(&cbrng, ntags), vf_randn(&cbrng, 17)); }
    if (size > maxlen[ti]) vf_violation("am:size", "rank %d: %zu bytes delivered on tag %lu registered for %u", me, size, (unsigned long)tag, maxlen[ti]);
    if (size < 4) {
        uint8_t e[4]; stream_fill(e, 0, size, tiny_key(src, me, ti, (int)size));
        if (size && memcmp(e, msg, size)) vf_violation("am:bytes", "rank %d: %zu-byte message from %d on tagidx %d has wrong bytes", me, size, src, ti);
        r->ntiny[size]++; r->next++;
    } else {
        uint32_t seq; memcpy(&seq, msg, 4);
        if (seq > (1u << 28)) vf_violation("am:bytes", "rank %d: message from %d on tagidx %d len %zu carries an impossible seq %u", me, src, ti, size, seq);
        else {
            long m = stream_cmp((uint8_t *)msg + 4, 4, size - 4, am_key(src, me, ti, seq));
            if (m >= 0) vf_violation("am:bytes", "rank %d: message seq %u from %d on tagidx %d len %zu differs at byte %ld (posted=%d tested=%d)", me, seq, src, ti, size, m + 4, p_posted, p_tested);
            rx_mark(r, seq, src, ti, "am");
        }
    }
    in_cb--; return 1;
}

static void send_one(int dst, int ti, uint32_t len) {
    /* may be entered from a callback while an outer send_one is being prepared: private buffer per call */
    tx_t *t = &tx[dst][ti]; uint32_t seq = t->nsent++;
    uint8_t *sendbuf = malloc(len + 64);
    if (len < 4) { stream_fill(sendbuf, 0, len, tiny_key(me, dst, ti, (int)len)); t->ntiny[len]++; }
    else { memcpy(sendbuf, &seq, 4); stream_fill(sendbuf + 4, 4, len - 4, am_key(me, dst, ti, seq)); }
    parsec_ce.send_am(&parsec_ce, utag[ti], dst, sendbuf, len);
    /* the engine's send is blocking: the buffer may be reused at once; scribble to prove it */
    if (len) memset(sendbuf, 0xEE, len);
    free(sendbuf);
    am_sent++; EVENT();
}
static uint32_t pick_len(int ti) {
    uint32_t L = maxlen[ti]; int c = vf_randn(&rng, 100);
    if (c < 8) return vf_randn(&rng, 4 < L + 1 ? 4 : L + 1);
    if (c < 16) return L;
    if (c < 22) return L > 1 ? L - 1 - vf_randn(&rng, L > 17 ? 16 : 1) : L;
    if (c < 40) return L >= 4 ? 4 + vf_randn(&rng, (L - 4 < 60 ? L - 4 : 60) + 1) : L;
    return L >= 4 ? 4 + vf_randn(&rng, L - 3) : L;
}
static int other_rank(void) { int d = vf_randn(&rng, world - 1); return d >= me ? d + 1 : d; }
/* --pair-safe: on every ordered data channel holder->receiver only ONE process allocates the transfer tags
 * (puts are requested from lower ranks only, gets aimed at higher ranks only); see c14.py for the reason */
static int pair_safe;
static int lower_rank(void) { return me > 0 ? (int)vf_randn(&rng, me) : -1; }
static int higher_rank(void) { return me < world - 1 ? me + 1 + (int)vf_randn(&rng, world - 1 - me) : -1; }

/* ---------------------------------------------------------------- one-sided state */
static int hsz;                                         /* opaque handle size */
typedef int (*am_fn_t)(parsec_comm_engine_t *, parsec_ce_tag_t, void *, size_t, int, void *);
/* published per rank: get-source regions and the callbacks peers must name */
static int ngreg; static layout_t greg_lay[MAXGREG];    /* same on all ranks (seeded) */
static buf_t greg_buf[MAXGREG]; static parsec_ce_mem_reg_handle_t greg_h[MAXGREG];
typedef struct { uint64_t put_rcb, get_rcb; uint8_t h[MAXGREG][HSZ_MAX]; } publish_t;
static publish_t *pub;                                  /* [world] */

typedef struct { uint32_t magic, opid; int32_t initiator, region; uint64_t check; } cbdata_t;
#define CB_MAGIC 0x0C14CB01u
static inline uint64_t cbd_check(const cbdata_t *c) { return vf_mix(vf_mix(seed, c->opid), ((uint64_t)(uint32_t)c->initiator << 32) | (uint32_t)c->region); }

enum { OP_FREE = 0, OP_PUTREQ, OP_GET };
typedef struct op_s { int kind, peer, done, issued; uint32_t opid; buf_t buf; parsec_ce_mem_reg_handle_t h; int region; size_t ldispl; struct op_s *next; } op_t;
static op_t **ops; static uint32_t nops, ops_cap;        /* my put requests and gets, by opid */
static op_t *get_defer_head, *get_defer_tail;            /* gets waiting for can_serve */

/* put request wire format on the ctl tag */
typedef struct { uint32_t seq, pad; uint64_t check; uint32_t opid, nbytes; uint64_t rcb; uint8_t h[HSZ_MAX]; } putreq_t;
typedef struct job_s { int dest, done; uint32_t opid, nbytes; uint64_t rcb; uint8_t h[HSZ_MAX]; buf_t src; parsec_ce_mem_reg_handle_t lh; size_t ldispl; cbdata_t cbd; struct job_s *next; } job_t;
static job_t *job_head, *job_tail;
static uint64_t putreq_sent[MAXR], putreq_recv, put_started, put_lcb, put_rcb_n, get_issued_to[MAXR], get_started, get_lcb_n, get_rcb_n;
static uint64_t os_bytes, os_outstanding, os_outstanding_max, cannot_serve_obs, dynq_send_obs, dynq_recv_obs, put_in_cb, strided_ops, zero_ops, max_os_size;
static uint8_t *getrcb_seen[MAXR]; static size_t getrcb_cap[MAXR];
static uint32_t os_max; static int put_immediate_permille;

/* episodes (empty -> non-empty transitions seen from outside) in which the engine's dynamic queues were in use */
static void observe_queues(void) {
    static int s_on, r_on;
    int s = !parsec_list_nolock_is_empty(&mpi_funnelled_dynamic_sendreq_fifo), r = !parsec_list_nolock_is_empty(&mpi_funnelled_dynamic_recvreq_fifo);
    if (s && !s_on) dynq_send_obs++; if (r && !r_on) dynq_recv_obs++;
    s_on = s; r_on = r;
}
static void os_begin(void) { if (++os_outstanding > os_outstanding_max) os_outstanding_max = os_outstanding; }

static op_t *op_new(int kind, int peer) {
    if (nops == ops_cap) { ops_cap = ops_cap ? ops_cap * 2 : 256; ops = realloc(ops, ops_cap * sizeof *ops); }
    op_t *o = calloc(1, sizeof *o); o->kind = kind; o->peer = peer; o->opid = nops; ops[nops++] = o; return o;
}

/* completion of a put on the holder (local side) */
static int put_local_cb(parsec_comm_engine_t *ce, parsec_ce_mem_reg_handle_t lreg, ptrdiff_t ldispl, parsec_ce_mem_reg_handle_t rreg,
                        ptrdiff_t rdispl, size_t size, int remote, void *cb_data) {
    (void)rreg; (void)rdispl; (void)size; job_t *j = (job_t *)cb_data; long w;
    in_cb++; EVENT(); put_lcb++; os_outstanding--;
    if (j->done++) { vf_violation("onesided:put:local-callback-twice", "rank %d: local completion of put opid %u for %d ran twice", me, j->opid, j->dest); in_cb--; return 1; }
    if (lreg != j->lh || (size_t)ldispl != j->ldispl || remote != j->dest)
        vf_violation("onesided:put:local-callback-args", "rank %d: put completion got lreg/ldispl/remote %p/%ld/%d, issued %p/%zu/%d", me, lreg, (long)ldispl, remote, j->lh, j->ldispl, j->dest);
    if (buf_check(&j->src, put_key(me, j->dest, j->opid), &w))
        vf_violation("onesided:put:source-modified", "rank %d: source buffer of put opid %u changed at offset %ld", me, j->opid, w);
    ce->mem_unregister(&j->lh); buf_free(&j->src); free(j);
    in_cb--; return 1;
}
static void put_start(job_t *j) {
    layout_t l; lay_random(&l, j->nbytes, &cbrng, 1);
    if (l.nbytes != j->nbytes) { l.nbytes = j->nbytes; l.blocklen = 0; l.stride = 0; }   /* keep the byte count of the request */
    j->ldispl = vf_chance(&cbrng, 300) ? (size_t)(1 + vf_randn(&cbrng, 2000)) : 0;
    buf_make(&j->src, &l, j->ldispl); buf_fill(&j->src, put_key(me, j->dest, j->opid));
    size_t hs; parsec_ce.mem_register(buf_reg_base(&j->src), PARSEC_MEM_TYPE_NONCONTIGUOUS, j->src.count, j->src.dt, -1, &j->lh, &hs);
    j->cbd.magic = CB_MAGIC; j->cbd.opid = j->opid; j->cbd.initiator = j->dest; j->cbd.region = -1; j->cbd.check = cbd_check(&j->cbd);
    if (l.blocklen) strided_ops++; if (!l.nbytes) zero_ops++;
    os_begin(); put_started++; os_bytes += l.nbytes; EVENT();
    parsec_ce.put(&parsec_ce, j->lh, (ptrdiff_t)j->ldispl, (parsec_ce_mem_reg_handle_t)j->h, 0, j->nbytes, j->dest,
                  put_local_cb, j, (parsec_ce_tag_t)j->rcb, &j->cbd, sizeof j->cbd);
    observe_queues();
}
/* request AM arriving at the holder */
static int ctl_cb(parsec_comm_engine_t *ce, parsec_ce_tag_t tag, void *msg, size_t size, int src, void *cb_data) {
    (void)ce; (void)tag; (void)cb_data; putreq_t *q = (putreq_t *)msg;
    in_cb++; EVENT();
    if (src < 0 || src >= world || src == me || size != offsetof(putreq_t, h) + (size_t)hsz) { vf_violation("am:ctl", "rank %d: malformed request (%zu bytes) from %d", me, size, src); in_cb--; return 1; }
    if (q->check != vf_mix(vf_mix(seed, q->seq), ((uint64_t)q->opid << 32) | q->nbytes)) { vf_violation("am:bytes", "rank %d: request seq %u from %d corrupted", me, q->seq, src); in_cb--; return 1; }
    rx_t *r = &rx[src][ntags]; r->nrecv++;
    rx_mark(r, q->seq, src, ntags, "ctl");
    putreq_recv++;
    job_t *j = calloc(1, sizeof *j); j->dest = src; j->opid = q->opid; j->nbytes = q->nbytes; j->rcb = q->rcb; memcpy(j->h, q->h, hsz);
    /* as remote_dep_mpi_save_put_cb does: start at once when the engine can serve, else queue */
    if (vf_chance(&cbrng, put_immediate_permille) && parsec_ce.can_serve(&parsec_ce)) { put_in_cb++; put_start(j); }
    else { if (job_tail) job_tail->next = j; else job_head = j; job_tail = j; }
    in_cb--; return 1;
}
/* A put and a get between the same pair share one MPI tag space (source, tag, communicator) but draw their tags from
 * two different per-process counters: recognise a payload that belongs to the other kind of transfer. */
static int is_get_stream(buf_t *b, int owner) {
    long w; for (int g = 0; g < ngreg; g++) if (greg_lay[g].nbytes == b->lay.nbytes && b->lay.nbytes && 0 == buf_check(b, get_key(owner, g), &w)) return 1;
    return 0;
}
static int is_put_stream(buf_t *b, int holder) {
    long w; for (uint32_t i = 0; i < nops; i++) if (ops[i]->kind == OP_PUTREQ && ops[i]->peer == holder && ops[i]->issued && 0 == buf_check(b, put_key(holder, me, i), &w)) return 1;
    return 0;
}
static uint64_t clash_seen; static int scenario_reported;
/* completion of a put on the requester (remote side): runs as an AM-style callback named by the request */
static int put_remote_cb(parsec_comm_engine_t *ce, parsec_ce_tag_t tag, void *msg, size_t size, int src, void *cb_data) {
    (void)tag; (void)cb_data; cbdata_t c; long w;
    in_cb++; EVENT(); put_rcb_n++;
    memcpy(&c, msg, sizeof c);
    if (c.magic != CB_MAGIC || c.check != cbd_check(&c) || c.opid >= nops || c.initiator != me) { vf_violation("onesided:put:callback-data", "rank %d: remote completion of a put from %d carries corrupted callback data", me, src); in_cb--; return 1; }
    op_t *o = ops[c.opid];
    if (o->kind != OP_PUTREQ || o->peer != src) { vf_violation("onesided:put:callback-data", "rank %d: put completion for opid %u from %d, requested from %d", me, c.opid, src, o->peer); in_cb--; return 1; }
    if (o->done++) { vf_violation("onesided:put:remote-callback-twice", "rank %d: completion of requested put opid %u ran twice", me, c.opid); in_cb--; return 1; }
    if (size != o->buf.lay.nbytes) vf_violation("onesided:put:size", "rank %d: put opid %u from %d moved %zu bytes, %u requested", me, c.opid, src, size, o->buf.lay.nbytes);
    int rc = buf_check(&o->buf, put_key(src, me, c.opid), &w);
    if (rc == 1 && is_get_stream(&o->buf, src)) { clash_seen++; rc = 0;
        vf_violation("onesided:put-get-tag-clash", "rank %d: the target of put opid %u from %d (%u bytes) received the payload of a concurrent get from the same peer (both transfers used the same MPI tag)", me, c.opid, src, o->buf.lay.nbytes); }
    if (rc == 1) vf_violation("onesided:put:bytes", "rank %d: put opid %u from %d (%u bytes%s) differs at offset %ld (dyn=%d dynrecv=%d)", me, c.opid, src, o->buf.lay.nbytes, o->buf.lay.blocklen ? " strided" : "", w, p_dyn, p_dynrecv);
    if (rc == 2) vf_violation("onesided:put:outside-target", "rank %d: put opid %u from %d changed a byte outside the target at offset %ld", me, c.opid, src, w);
    ce->mem_unregister(&o->h); buf_free(&o->buf);
    in_cb--; return 1;
}
static void get_issue(void);
static int force_peer = -1, force_region = -1; static long force_nbytes = -1;   /* scenarios */
static void putreq_issue(void) {
    int holder = force_peer >= 0 ? force_peer : pair_safe ? lower_rank() : other_rank();
    if (holder < 0) { get_issue(); return; }
    op_t *o = op_new(OP_PUTREQ, holder);
    uint32_t nb; int c = vf_randn(&rng, 100);
    if (c < 6) nb = 0; else if (c < 30) nb = 1 + vf_randn(&rng, 64); else if (c < 70) nb = 1 + vf_randn(&rng, 8192 < os_max ? 8192 : os_max);
    else if (c < 92) nb = 1 + vf_randn(&rng, 131072 < os_max ? 131072 : os_max); else nb = os_max - vf_randn(&rng, os_max / 8 + 1);
    if (force_nbytes >= 0) nb = (uint32_t)force_nbytes;
    layout_t l; lay_random(&l, nb, &rng, force_nbytes < 0);
    buf_make(&o->buf, &l, 0);                  /* the engine ignores displacements on the remote side: register exactly the target */
    size_t hs; parsec_ce.mem_register(buf_reg_base(&o->buf), PARSEC_MEM_TYPE_NONCONTIGUOUS, o->buf.count, o->buf.dt, -1, &o->h, &hs);
    if (l.blocklen) strided_ops++; if (l.nbytes > max_os_size) max_os_size = l.nbytes;
    putreq_t q; memset(&q, 0, sizeof q);
    q.seq = tx[holder][ntags].nsent++; q.opid = o->opid; q.nbytes = l.nbytes; q.rcb = (uint64_t)(uintptr_t)put_remote_cb;
    q.check = vf_mix(vf_mix(seed, q.seq), ((uint64_t)q.opid << 32) | q.nbytes); memcpy(q.h, o->h, hsz);
    putreq_sent[holder]++; o->issued = 1; EVENT();
    parsec_ce.send_am(&parsec_ce, ctl_tag, holder, &q, offsetof(putreq_t, h) + hsz);
}

/* get: local completion */
static int get_local_cb(parsec_comm_engine_t *ce, parsec_ce_mem_reg_handle_t lreg, ptrdiff_t ldispl, parsec_ce_mem_reg_handle_t rreg,
                        ptrdiff_t rdispl, size_t size, int remote, void *cb_data) {
    (void)rreg; (void)rdispl; op_t *o = (op_t *)cb_data; long w;
    in_cb++; EVENT(); get_lcb_n++; os_outstanding--;
    if (o->done++) { vf_violation("onesided:get:local-callback-twice", "rank %d: completion of get opid %u ran twice", me, o->opid); in_cb--; return 1; }
    if (lreg != o->h || (size_t)ldispl != o->ldispl || remote != o->peer || size != o->buf.lay.nbytes)
        vf_violation("onesided:get:local-callback-args", "rank %d: get completion got lreg/ldispl/remote/size %p/%ld/%d/%zu, issued %p/%zu/%d/%u", me, lreg, (long)ldispl, remote, size, o->h, o->ldispl, o->peer, o->buf.lay.nbytes);
    int rc = buf_check(&o->buf, get_key(o->peer, o->region), &w);
    if (rc == 1 && is_put_stream(&o->buf, o->peer)) { clash_seen++; rc = 0;
        vf_violation("onesided:put-get-tag-clash", "rank %d: the target of get opid %u from %d (%u bytes) received the payload of a concurrent put from the same peer (both transfers used the same MPI tag)", me, o->opid, o->peer, o->buf.lay.nbytes); }
    if (rc == 1) vf_violation("onesided:get:bytes", "rank %d: get opid %u of region %d of %d (%u bytes%s) differs at offset %ld (dyn=%d dynrecv=%d)", me, o->opid, o->region, o->peer, o->buf.lay.nbytes, o->buf.lay.blocklen ? " strided" : "", w, p_dyn, p_dynrecv);
    if (rc == 2) vf_violation("onesided:get:outside-target", "rank %d: get opid %u changed a byte outside the target at offset %ld", me, o->opid, w);
    ce->mem_unregister(&o->h); buf_free(&o->buf);
    in_cb--; return 1;
}
/* get: completion on the owner of the source region */
static int get_remote_cb(parsec_comm_engine_t *ce, parsec_ce_tag_t tag, void *msg, size_t size, int src, void *cb_data) {
    (void)ce; (void)tag; (void)size; (void)cb_data; cbdata_t c;
    in_cb++; EVENT(); get_rcb_n++;
    memcpy(&c, msg, sizeof c);
    /* src/tag/size come from the status of a completed SEND here (undefined by MPI): identify the peer by the callback data only */
    if (c.magic != CB_MAGIC || c.check != cbd_check(&c) || c.initiator < 0 || c.initiator >= world || c.initiator == me || c.region < 0 || c.region >= ngreg) { vf_violation("onesided:get:callback-data", "rank %d: source-side completion of a get carries corrupted callback data (initiator %d region %d)", me, c.initiator, c.region); in_cb--; return 1; }
    src = c.initiator;
    if (c.opid >= getrcb_cap[src]) { size_t nc = getrcb_cap[src] ? getrcb_cap[src] : 256; while (nc <= c.opid) nc *= 2; getrcb_seen[src] = realloc(getrcb_seen[src], nc); memset(getrcb_seen[src] + getrcb_cap[src], 0, nc - getrcb_cap[src]); getrcb_cap[src] = nc; }
    if (getrcb_seen[src][c.opid]++) vf_violation("onesided:get:remote-callback-twice", "rank %d: source-side completion of get opid %u by %d ran twice", me, c.opid, src);
    in_cb--; return 1;
}
static void get_start(op_t *o) {
    cbdata_t c; c.magic = CB_MAGIC; c.opid = o->opid; c.initiator = me; c.region = o->region; c.check = cbd_check(&c);
    os_begin(); get_started++; os_bytes += o->buf.lay.nbytes; o->issued = 1; EVENT();
    parsec_ce.get(&parsec_ce, o->h, (ptrdiff_t)o->ldispl, (parsec_ce_mem_reg_handle_t)pub[o->peer].h[o->region], 0, o->buf.lay.nbytes, o->peer,
                  get_local_cb, o, (parsec_ce_tag_t)pub[o->peer].get_rcb, &c, sizeof c);
    observe_queues();
}
static void get_issue(void) {
    int owner = force_peer >= 0 ? force_peer : pair_safe ? higher_rank() : other_rank();
    if (owner < 0) { if (have_ctl) putreq_issue(); return; }
    int g = force_region >= 0 ? force_region : (int)vf_randn(&rng, ngreg); op_t *o = op_new(OP_GET, owner); o->region = g;
    layout_t l; lay_random(&l, greg_lay[g].nbytes, &rng, 1);
    if (l.nbytes != greg_lay[g].nbytes) { l.nbytes = greg_lay[g].nbytes; l.blocklen = 0; l.stride = 0; }
    o->ldispl = vf_chance(&rng, 300) ? (size_t)(1 + vf_randn(&rng, 2000)) : 0;
    buf_make(&o->buf, &l, o->ldispl);
    size_t hs; parsec_ce.mem_register(buf_reg_base(&o->buf), PARSEC_MEM_TYPE_NONCONTIGUOUS, o->buf.count, o->buf.dt, -1, &o->h, &hs);
    if (l.blocklen || greg_lay[g].blocklen) strided_ops++; if (!l.nbytes) zero_ops++;
    get_issued_to[owner]++;
    /* "The upper layer will query the bottom layer before pushing additional one-sided messages" */
    if (!get_defer_head && parsec_ce.can_serve(&parsec_ce)) get_start(o);
    else { if (get_defer_tail) get_defer_tail->next = o; else get_defer_head = o; get_defer_tail = o; }
}
/* serve what is queued locally; returns number started */
static int serve_queues(void) {
    int n = 0;
    while ((job_head || get_defer_head) && parsec_ce.can_serve(&parsec_ce)) {
        if (job_head && (!get_defer_head || vf_chance(&cbrng, 500))) { job_t *j = job_head; job_head = j->next; if (!job_head) job_tail = NULL; j->next = NULL; put_start(j); }
        else { op_t *o = get_defer_head; get_defer_head = o->next; if (!get_defer_head) get_defer_tail = NULL; o->next = NULL; get_start(o); }
        n++;
    }
    { static int on; int b = (job_head || get_defer_head); if (b && !on) cannot_serve_obs++; on = b; }
    return n;
}

/* ---------------------------------------------------------------- main */
static int mca_int(const char *name) {
    int idx = parsec_mca_param_find("runtime", NULL, name), v = -1;
    if (idx >= 0) parsec_mca_param_lookup_int(idx, &v);
    return v;
}
static void progress_n(int n) { for (int i = 0; i < n; i++) { parsec_ce.progress(&parsec_ce); observe_queues(); if ((i & 7) == 0) serve_queues(); } serve_queues(); }

int main(int argc, char **argv) {
    int prov; MPI_Init_thread(&argc, &argv, MPI_THREAD_SERIALIZED, &prov);
    MPI_Comm_rank(MPI_COMM_WORLD, &me); MPI_Comm_size(MPI_COMM_WORLD, &world);
    seed = (uint64_t)vf_arg_ll(argc, argv, "--seed", 1);
    long steps = vf_arg_ll(argc, argv, "--steps", 400);
    int want_tags = (int)vf_arg_ll(argc, argv, "--tags", 4);
    uint32_t lenmax = (uint32_t)vf_arg_ll(argc, argv, "--maxlen", 2048);
    os_max = (uint32_t)vf_arg_ll(argc, argv, "--os-max", 65536);
    int w_am = (int)vf_arg_ll(argc, argv, "--w-am", 70), w_put = (int)vf_arg_ll(argc, argv, "--w-put", 15), w_get = (int)vf_arg_ll(argc, argv, "--w-get", 15);
    int burst_max = (int)vf_arg_ll(argc, argv, "--burst", 24);
    int between = (int)vf_arg_ll(argc, argv, "--progress-between", 300);   /* permille: progress after a step */
    int kprog = (int)vf_arg_ll(argc, argv, "--kprog", 200);
    int idle_rounds_max = (int)vf_arg_ll(argc, argv, "--idle-rounds", 200);
    pair_safe = vf_has_flag(argc, argv, "--pair-safe");
    const char *scenario = vf_arg(argc, argv, "--scenario", "");
    int late_tag = vf_has_flag(argc, argv, "--late-tag");
    put_immediate_permille = (int)vf_arg_ll(argc, argv, "--put-immediate", 500);
    echo_permille = (int)vf_arg_ll(argc, argv, "--echo", 60);
    if (world < 2 || world > MAXR) { if (!me) fprintf(stderr, "need 2..%d ranks\n", MAXR); MPI_Finalize(); return 2; }
    vf_rng_seed(&rng, seed, 1000 + me); vf_rng_seed(&cbrng, seed, 5000 + me);
    if (os_max < 16) os_max = 16;

    int pargc = 0; char **pargv = NULL;
    for (int i = 1; i < argc; i++) if (!strcmp(argv[i], "--")) { pargc = argc - i; pargv = argv + i; break; }
    double t_start = vf_now();
    parsec_context_t *ctx = parsec_init(1, &pargc, &pargv);
    double t_init = vf_now();
    if (!ctx) { fprintf(stderr, "parsec_init failed\n"); MPI_Abort(MPI_COMM_WORLD, 2); }
    vf_heartbeat_start();

    /* user tags: whatever is free among the slots the runtime does not use; lengths are seeded, same on all ranks */
    vf_rng_t grng; vf_rng_seed(&grng, seed, 7);
    static const int cand[] = {10, 11, 7, 8, 9, 4};
    static const uint32_t lens[] = {16, 64, 200, 1000, 1536, 2048, 3000, 3584, 8192, 16384, 60000};
    int nlens = 0; while (nlens < 11 && lens[nlens] <= lenmax) nlens++;
    if (want_tags > MAXT) want_tags = MAXT;
    for (int i = 0; i < 6 && ntags < want_tags; i++) {
        uint32_t L = (ntags == 0) ? lenmax : lens[vf_randn(&grng, nlens)];
        if (PARSEC_SUCCESS == parsec_ce.tag_register(cand[i], am_cb, (void *)(intptr_t)ntags, L)) { utag[ntags] = cand[i]; maxlen[ntags] = L; ntags++; }
    }
    for (int i = 5; i >= 0 && !have_ctl; i--) {
        int used = 0; for (int t = 0; t < ntags; t++) if (utag[t] == (parsec_ce_tag_t)cand[i]) used = 1;
        if (!used && PARSEC_SUCCESS == parsec_ce.tag_register(cand[i], ctl_cb, NULL, sizeof(putreq_t))) { ctl_tag = cand[i]; have_ctl = 1; }
    }
    if (ntags < 1) { fprintf(stderr, "no free tag\n"); MPI_Abort(MPI_COMM_WORLD, 2); }
    if (!have_ctl) { w_put = 0; }
    parsec_ce.enable(&parsec_ce);
    p_posted = mca_int("comm_mpi_am_posted_requests"); p_tested = mca_int("comm_mpi_am_tested_requests");
    p_dyn = mca_int("comm_mpi_dynamic_requests"); p_dynrecv = mca_int("comm_mpi_dynamic_recv_requests");
    hsz = parsec_ce.get_mem_handle_size();
    if (hsz > HSZ_MAX) { fprintf(stderr, "handle too large\n"); MPI_Abort(MPI_COMM_WORLD, 2); }

    /* get-source regions (shape seeded and global; content a function of owner and index) */
    {
        static const uint32_t gs[] = {0, 1, 7, 64, 1000, 4096, 40000, 65537, 300000, 1048576, 4194304};
        ngreg = 0;
        for (int i = 0; i < 11 && ngreg < MAXGREG; i++) {
            if (gs[i] > os_max) break;
            lay_random(&greg_lay[ngreg], gs[i], &grng, 1); ngreg++;
        }
        if (os_max > 4096 && ngreg < MAXGREG) { lay_random(&greg_lay[ngreg], os_max, &grng, 0); ngreg++; }
        pub = calloc(world, sizeof *pub);
        publish_t mine; memset(&mine, 0, sizeof mine);
        mine.put_rcb = (uint64_t)(uintptr_t)put_remote_cb; mine.get_rcb = (uint64_t)(uintptr_t)get_remote_cb;
        for (int g = 0; g < ngreg; g++) {
            size_t hs; buf_make(&greg_buf[g], &greg_lay[g], 0); buf_fill(&greg_buf[g], get_key(me, g));
            parsec_ce.mem_register(buf_reg_base(&greg_buf[g]), PARSEC_MEM_TYPE_NONCONTIGUOUS, greg_buf[g].count, greg_buf[g].dt, -1, &greg_h[g], &hs);
            memcpy(mine.h[g], greg_h[g], hsz);
        }
        MPI_Allgather(&mine, sizeof mine, MPI_BYTE, pub, sizeof mine, MPI_BYTE, MPI_COMM_WORLD);
    }
    MPI_Barrier(MPI_COMM_WORLD);

    /* ---- --tag-offset N: rank r first performs r*N zero-byte gets, so that the per-process transfer-tag counters of
     * different ranks stay in disjoint ranges for the rest of the run (each rank uses far fewer than N tags).  With
     * that, puts and gets may share an ordered pair of processes without two transfers in flight ever carrying the
     * same tag on the unchanged engine -- and a transfer-tag allocator that hands out a tag still in use shows. ---- */
    long tag_offset = vf_arg_ll(argc, argv, "--tag-offset", 0);
    if (tag_offset > 0) {
        long want = (long)me * tag_offset, issued = 0; int alldone = 0, idle = 0; int64_t lastev = -1;
        force_region = 0;                            /* region 0 is the zero-byte region */
        while (!alldone && idle < idle_rounds_max) {
            for (int b = 0; b < 64 && issued < want; b++, issued++) { force_peer = (me + 1 + (int)(issued % (world - 1))) % world; if (force_peer == me) force_peer = (me + 1) % world; get_issue(); }
            progress_n(kprog);
            int64_t mine[2] = { (issued == want && get_lcb_n == (uint64_t)want && !get_defer_head), (int64_t)events }, sum[2];
            MPI_Request rq; int fl = 0; MPI_Iallreduce(mine, sum, 2, MPI_INT64_T, MPI_SUM, MPI_COMM_WORLD, &rq);
            while (!fl) { MPI_Test(&rq, &fl, MPI_STATUS_IGNORE); if (!fl) progress_n(1); }
            alldone = (sum[0] == world);
            if (sum[1] == lastev) idle++; else { idle = 0; lastev = sum[1]; }
        }
        if (!alldone) vf_violation("onesided:get:never-completed", "rank %d: %lu of %ld zero-byte warm-up gets completed at global quiescence (dyn=%d dynrecv=%d)", me, (unsigned long)get_lcb_n, want, p_dyn, p_dynrecv);
        force_peer = -1; force_region = -1;
    }

    /* ---- scenario: one put and one get between the same two processes, issued so that both are in flight at once ----
     * rank 1 asks rank 0 for a put; rank 0 starts it (transfer tag from rank 0's counter); rank 1, which has not yet seen
     * the handshake, issues a get on a region of the same size of rank 0 (transfer tag from rank 1's counter). */
    if (!strcmp(scenario, "put-get-same-pair") && have_ctl) {
        int g = -1; for (int i = 0; i < ngreg; i++) if (greg_lay[i].nbytes >= 512 && greg_lay[i].nbytes <= 8192) g = i;
        if (g < 0) g = ngreg - 1;
        if (me == 1) { force_peer = 0; force_nbytes = greg_lay[g].nbytes; putreq_issue(); force_nbytes = -1; }
        if (me == 0) { put_immediate_permille = 1000; while (put_started < 1) { parsec_ce.progress(&parsec_ce); serve_queues(); } }
        MPI_Barrier(MPI_COMM_WORLD);
        if (me == 1) { force_region = g; get_issue(); force_peer = -1; force_region = -1; }
    }

    /* ---- scenario: two processes get from each other at the same time while every dynamic request slot may hold a
     * receive (runtime_comm_mpi_dynamic_recv_requests == runtime_comm_mpi_dynamic_requests, e.g. 1/1) ---- */
    const char *scenario_key = NULL;
    if (!strcmp(scenario, "crossing-gets")) {
        int g = -1; for (int i = 0; i < ngreg; i++) if (greg_lay[i].nbytes >= 512 && greg_lay[i].nbytes <= 8192) g = i;
        if (g < 0) g = ngreg - 1;
        if (me < 2) { force_peer = 1 - me; force_region = g; for (int k = 0; k < (p_dyn > 0 ? p_dyn : 1); k++) get_issue(); force_peer = -1; force_region = -1; }
        MPI_Barrier(MPI_COMM_WORLD);        /* both have posted their receives before either serves the other's request */
        scenario_key = "onesided:get:crossing-gets-deadlock";
    }

    /* ---- lock-step rounds ---- */
    long left = steps; int totals_known = 0, idle_rounds = 0, rounds = 0, finished = 0, quiescent_unsatisfied = 0;
    uint64_t last_global_events = 0;
    enum { TV = (MAXT + 1) * 5 + 2 };
    uint32_t *tot_mine = calloc(MAXR * TV, sizeof(uint32_t)), *tot_all = NULL;
    while (!finished) {
        rounds++;
        /* 1. generate */
        if (left > 0) {
            int c = vf_randn(&rng, 100); long n = c < 20 ? 0 : c < 40 ? 8 + vf_randn(&rng, 24) : 1 + vf_randn(&rng, 6);
            if (n > left) n = left;
            for (long s = 0; s < n; s++) {
                int a = vf_randn(&rng, w_am + w_put + w_get);
                if (a < w_am) {
                    int b = vf_chance(&rng, 500) ? 1 : 2 + vf_randn(&rng, burst_max - 1);
                    int fixed_dst = vf_chance(&rng, 600), fixed_tag = vf_chance(&rng, 600);
                    int d0 = other_rank(), t0 = vf_randn(&rng, ntags);
                    for (int k = 0; k < b; k++) {
                        int d = fixed_dst ? d0 : other_rank(), t = fixed_tag ? t0 : (int)vf_randn(&rng, ntags);
                        send_one(d, t, pick_len(t));
                    }
                    if ((uint64_t)b > max_burst) max_burst = b;
                    if (fixed_dst && fixed_tag && b > p_posted) bursts_over_pool++;
                } else if (a < w_am + w_put) {
                    putreq_issue();
                } else {
                    get_issue();
                }
                if (vf_chance(&rng, between)) progress_n(1 + vf_randn(&rng, 4));
            }
            left -= n;
        }
        /* 2. progress */
        progress_n(kprog);
        /* 3. agree */
        int64_t v[4], g[4];
        int sat = 0;
        if (totals_known) {
            sat = 1;
            for (int s = 0; s < world && sat; s++) {
                if (s == me) continue;
                uint32_t *ts = tot_all + (size_t)s * MAXR * TV + (size_t)me * TV;
                for (int t = 0; t <= ntags; t++) {
                    uint64_t tiny = rx[s][t].ntiny[0] + rx[s][t].ntiny[1] + rx[s][t].ntiny[2] + rx[s][t].ntiny[3];
                    if (rx[s][t].nrecv < ts[t * 5]) sat = 0;
                    (void)tiny;
                }
            }
            uint64_t exp_req = 0, exp_getrcb = 0;
            for (int s = 0; s < world; s++) if (s != me) { uint32_t *ts = tot_all + (size_t)s * MAXR * TV + (size_t)me * TV; exp_req += ts[ntags * 5]; exp_getrcb += ts[(MAXT + 1) * 5]; }
            uint64_t my_putreq = 0, my_get = 0; for (int d = 0; d < world; d++) { my_putreq += putreq_sent[d]; my_get += get_issued_to[d]; }
            if (putreq_recv < exp_req || put_lcb < exp_req || put_rcb_n < my_putreq || get_lcb_n < my_get || get_rcb_n < exp_getrcb || job_head || get_defer_head) sat = 0;
        }
        v[0] = (int64_t)events; v[1] = left <= 0; v[2] = sat; v[3] = vf_nviolations;
        MPI_Request rq; int fl = 0;
        MPI_Iallreduce(v, g, 4, MPI_INT64_T, MPI_SUM, MPI_COMM_WORLD, &rq);
        while (!fl) { MPI_Test(&rq, &fl, MPI_STATUS_IGNORE); if (!fl) progress_n(1); }
        if (!totals_known && g[1] == world) {
            totals_frozen = 1;
            for (int d = 0; d < world; d++) {
                uint32_t *t = tot_mine + (size_t)d * TV;
                for (int k = 0; k <= ntags; k++) { t[k * 5] = tx[d][k].nsent; for (int z = 0; z < 4; z++) t[k * 5 + 1 + z] = tx[d][k].ntiny[z]; }
                t[(MAXT + 1) * 5] = (uint32_t)get_issued_to[d]; t[(MAXT + 1) * 5 + 1] = (uint32_t)putreq_sent[d];
            }
            totals_frozen = 1;          /* every send so far is in tot_mine; nothing is sent from callbacks any more */
            tot_all = calloc((size_t)world * MAXR * TV, sizeof(uint32_t));
            MPI_Allgather(tot_mine, MAXR * TV, MPI_UINT32_T, tot_all, MAXR * TV, MPI_UINT32_T, MPI_COMM_WORLD);
            totals_known = 1; last_global_events = (uint64_t)g[0]; idle_rounds = 0;
            continue;
        }
        if (totals_known) {
            if (g[2] == world) finished = 1;
            else if ((uint64_t)g[0] == last_global_events) { if (++idle_rounds >= idle_rounds_max) { finished = 1; quiescent_unsatisfied = 1; } }
            else { idle_rounds = 0; last_global_events = (uint64_t)g[0]; }
            if (g[3] > 64) finished = 1;      /* enough witnesses */
        }
    }
    double t_rounds = vf_now();
    /* late deliveries (duplicates) would show up here */
    for (int i = 0; i < 20; i++) { progress_n(kprog); MPI_Barrier(MPI_COMM_WORLD); }

    /* ---- a tag registered after the engine was enabled ("The registration can happen at any moment, before or after
     * the communication engine was started ... it will do it at the next progress cycle", mpi_no_thread_tag_register) ---- */
    uint64_t late_sent = 0, late_all = 0;
    if (late_tag) {
        int lt = -1;
        for (int i = 0; i < 6 && lt < 0; i++) {
            int used = (have_ctl && ctl_tag == (parsec_ce_tag_t)cand[i]); for (int t = 0; t < ntags; t++) if (utag[t] == (parsec_ce_tag_t)cand[i]) used = 1;
            if (!used) lt = cand[i];
        }
        int ok = (lt >= 0 && ntags < MAXT) ? (PARSEC_SUCCESS == parsec_ce.tag_register(lt, am_cb, (void *)(intptr_t)ntags, 256)) : 0, allok = 0;
        MPI_Allreduce(&ok, &allok, 1, MPI_INT, MPI_MIN, MPI_COMM_WORLD);
        if (allok) {
            utag[ntags] = lt; maxlen[ntags] = 256; ntags++;     /* ctl statistics stay at their old index: not touched any more */
            uint64_t before = am_recv;
            MPI_Barrier(MPI_COMM_WORLD);
            progress_n(kprog);                                   /* "the next progress cycle" */
            MPI_Barrier(MPI_COMM_WORLD);
            rx_t saved[MAXR]; for (int s2 = 0; s2 < world; s2++) { saved[s2] = rx[s2][ntags - 1]; memset(&rx[s2][ntags - 1], 0, sizeof(rx_t)); }
            tx_t savedt[MAXR]; for (int d = 0; d < world; d++) { savedt[d] = tx[d][ntags - 1]; memset(&tx[d][ntags - 1], 0, sizeof(tx_t)); }
            for (int k = 0; k < 3; k++) { send_one((me + 1) % world, ntags - 1, 8 + 40 * k); late_sent++; }
            for (int r2 = 0; r2 < idle_rounds_max; r2++) {
                progress_n(kprog);
                uint64_t mine = am_recv - before; MPI_Allreduce(&mine, &late_all, 1, MPI_UINT64_T, MPI_SUM, MPI_COMM_WORLD);
                if (late_all >= 3ull * world) break;
            }
            if (am_recv - before < 3) vf_violation("am:late-registration:lost", "rank %d: %lu of 3 messages sent by %d on tag %d, registered on every rank after enable(), were delivered after %d rounds of %d progress calls",
                                                 me, (unsigned long)(am_recv - before), (me + world - 1) % world, lt, idle_rounds_max, kprog);
            for (int s2 = 0; s2 < world; s2++) rx[s2][ntags - 1] = saved[s2];
            for (int d = 0; d < world; d++) tx[d][ntags - 1] = savedt[d];
            ntags--;
            parsec_ce.tag_unregister(lt);
        }
    }

    /* ---- conservation ---- */
    uint64_t lost = 0, extra = 0;
    if (tot_all) {
        for (int s = 0; s < world; s++) {
            if (s == me) continue;
            uint32_t *ts = tot_all + (size_t)s * MAXR * TV + (size_t)me * TV;
            for (int t = 0; t <= ntags; t++) {
                rx_t *r = &rx[s][t]; uint32_t ns = ts[t * 5];
                if (r->nrecv > ns) { extra += r->nrecv - ns; vf_violation("am:extra", "rank %d received %lu messages from %d on tagidx %d, %u were sent", me, (unsigned long)r->nrecv, s, t, ns); }
                if (r->nrecv < ns) {
                    lost += ns - r->nrecv; uint32_t first = ns;
                    for (uint32_t q = 0; q < ns; q++) if (q >= r->cap || !r->seen[q]) { first = q; break; }
                    vf_violation(t == ntags ? "am:lost:ctl" : "am:lost", "rank %d received %lu of %u messages from %d on tagidx %d at global quiescence; first seq not seen as a sequenced message: %u (posted=%d tested=%d)",
                                 me, (unsigned long)r->nrecv, ns, s, t, first, p_posted, p_tested);
                }
                for (int z = 0; z < 4 && t < ntags; z++) if (r->ntiny[z] != ts[t * 5 + 1 + z] && r->nrecv == ns)
                    vf_violation("am:bytes", "rank %d: %lu messages of length %d from %d on tagidx %d, %u sent", me, (unsigned long)r->ntiny[z], z, s, t, ts[t * 5 + 1 + z]);
            }
        }
        for (uint32_t i = 0; i < nops; i++) {
            op_t *o = ops[i];
            if (o->done == 1) continue;
            if (o->done == 0 && scenario_key) { if (!scenario_reported++) vf_violation(scenario_key, "rank %d: get opid %u of %u bytes from %d never completed: at global quiescence the dynamic request slots of both processes hold the receives of their own gets and the replies stay queued (dyn=%d dynrecv=%d)", me, o->opid, o->buf.lay.nbytes, o->peer, p_dyn, p_dynrecv); }
            else if (o->done == 0) vf_violation(o->kind == OP_GET ? (o->issued ? "onesided:get:never-completed" : "onesided:get:never-servable") : "onesided:put:never-completed",
                                           "rank %d: %s opid %u with peer %d (%u bytes) had no completion at global quiescence (dyn=%d dynrecv=%d)", me, o->kind == OP_GET ? "get" : "requested put", o->opid, o->peer, o->buf.lay.nbytes, p_dyn, p_dynrecv);
        }
        uint64_t exp_req = 0, exp_getrcb = 0;
        for (int s = 0; s < world; s++) if (s != me) { uint32_t *ts = tot_all + (size_t)s * MAXR * TV + (size_t)me * TV; exp_req += ts[ntags * 5]; exp_getrcb += ts[(MAXT + 1) * 5]; }
        if (put_started != putreq_recv || put_lcb != put_started) vf_violation("onesided:put:local-callback-lost", "rank %d: %lu requests received, %lu puts started, %lu local completions", me, (unsigned long)putreq_recv, (unsigned long)put_started, (unsigned long)put_lcb);
        if (get_rcb_n != exp_getrcb && !(scenario_key && get_rcb_n < exp_getrcb)) vf_violation(get_rcb_n < exp_getrcb ? "onesided:get:remote-callback-lost" : "onesided:get:remote-callback-extra", "rank %d: %lu source-side get completions, %lu gets were aimed here", me, (unsigned long)get_rcb_n, (unsigned long)exp_getrcb);
    }
    long w;
    for (int g = 0; g < ngreg; g++) if (buf_check(&greg_buf[g], get_key(me, g), &w)) vf_violation("onesided:get:source-modified", "rank %d: get source region %d changed at offset %ld", me, g, w);
    if (quiescent_unsatisfied && !vf_nviolations) vf_violation("conservation:unsatisfied", "rank %d: global quiescence without the expected counts", me);

    /* ---- report ---- */
    uint64_t loc[24] = {am_sent, am_recv, am_bytes, put_started, put_lcb, put_rcb_n, get_started, get_lcb_n, get_rcb_n, os_bytes, cannot_serve_obs,
                        dynq_send_obs, dynq_recv_obs, put_in_cb, strided_ops, zero_ops, bursts_over_pool, lost, extra, (uint64_t)vf_nviolations, events, 0, 0, 0}, sum[24], mx[5], lmx[5] = {max_burst, os_outstanding_max, max_os_size, (uint64_t)rounds, 0}, lmx_extra = 0;
    uint64_t tags_used = put_started + get_started;
    if (tag_offset > 0 && tags_used - (uint64_t)me * tag_offset >= (uint64_t)tag_offset)
        fprintf(stderr, "c14: rank %d used %lu transfer tags after its offset, more than --tag-offset %ld: tag ranges overlapped\n", me, (unsigned long)(tags_used - (uint64_t)me * tag_offset), tag_offset);
    lmx_extra = (tag_offset > 0) ? tags_used - (uint64_t)me * tag_offset : 0;
    uint64_t ob = 0; for (int s = 0; s < world; s++) for (int t = 0; t <= ntags; t++) ob += rx[s][t].order_breaks; loc[21] = ob;
    uint64_t tz = 0; for (int s = 0; s < world; s++) for (int t = 0; t < ntags; t++) tz += rx[s][t].ntiny[0]; loc[22] = tz;
    loc[23] = echoes;
    MPI_Reduce(loc, sum, 24, MPI_UINT64_T, MPI_SUM, 0, MPI_COMM_WORLD);
    uint64_t echoes_all = sum[23];
    lmx[4] = lmx_extra;
    MPI_Reduce(lmx, mx, 5, MPI_UINT64_T, MPI_MAX, 0, MPI_COMM_WORLD);
    /* traffic matrix hash: what each rank actually received */
    uint64_t h = 0; for (int s = 0; s < world; s++) for (int t = 0; t <= ntags; t++) h = vf_mix(h, vf_mix(rx[s][t].nrecv, rx[s][t].bytes));
    uint64_t hs[MAXR]; MPI_Gather(&h, 1, MPI_UINT64_T, hs, 1, MPI_UINT64_T, 0, MPI_COMM_WORLD);
    if (!me) {
        uint64_t hh = 0; for (int r = 0; r < world; r++) hh = vf_mix(hh, hs[r]);
        char tl[128] = ""; for (int t = 0; t < ntags; t++) { char x[24]; snprintf(x, sizeof x, "%s%lu:%u", t ? "," : "", (unsigned long)utag[t], maxlen[t]); strcat(tl, x); }
        vf_out("{\"type\":\"summary\",\"ranks\":%d,\"seed\":%llu,\"tags\":\"%s\",\"ctl_tag\":%d,\"posted\":%d,\"tested\":%d,\"dyn\":%d,\"dynrecv\":%d,"
               "\"am_sent\":%llu,\"am_recv\":%llu,\"am_bytes\":%llu,\"am_zero_len\":%llu,\"max_burst\":%llu,\"bursts_over_pool\":%llu,"
               "\"puts\":%llu,\"put_lcb\":%llu,\"put_rcb\":%llu,\"gets\":%llu,\"get_lcb\":%llu,\"get_rcb\":%llu,\"os_bytes\":%llu,\"os_max_size\":%llu,"
               "\"os_outstanding_max\":%llu,\"cannot_serve_obs\":%llu,\"dynq_send_obs\":%llu,\"dynq_recv_obs\":%llu,\"put_in_cb\":%llu,\"strided_ops\":%llu,\"zero_ops\":%llu,"
               "\"lost\":%llu,\"extra\":%llu,\"order_breaks\":%llu,\"violations\":%llu,\"events\":%llu,\"rounds\":%llu,\"quiescent_unsatisfied\":%d,\"get_regions\":%d,\"traffic_hash\":\"%016llx\",\"echoes\":%llu,\"tag_offset\":%ld,\"max_tags_after_offset\":%llu,\"t_init\":%.1f,\"t_rounds\":%.1f,\"t_post\":%.1f}",
               world, (unsigned long long)seed, tl, have_ctl ? (int)ctl_tag : -1, p_posted, p_tested, p_dyn, p_dynrecv,
               (unsigned long long)sum[0], (unsigned long long)sum[1], (unsigned long long)sum[2], (unsigned long long)sum[22], (unsigned long long)mx[0], (unsigned long long)sum[16],
               (unsigned long long)sum[3], (unsigned long long)sum[4], (unsigned long long)sum[5], (unsigned long long)sum[6], (unsigned long long)sum[7], (unsigned long long)sum[8], (unsigned long long)sum[9], (unsigned long long)mx[2],
               (unsigned long long)mx[1], (unsigned long long)sum[10], (unsigned long long)sum[11], (unsigned long long)sum[12], (unsigned long long)sum[13], (unsigned long long)sum[14], (unsigned long long)sum[15],
               (unsigned long long)sum[17], (unsigned long long)sum[18], (unsigned long long)sum[21], (unsigned long long)sum[19], (unsigned long long)sum[20], (unsigned long long)mx[3], quiescent_unsatisfied, ngreg, (unsigned long long)hh, (unsigned long long)echoes_all, tag_offset, (unsigned long long)mx[4], t_init - t_start, t_rounds - t_init, vf_now() - t_rounds);
    }
    fflush(stdout);
    MPI_Barrier(MPI_COMM_WORLD);
    vf_heartbeat_stop();
    int bad = vf_nviolations > 0, anybad = 0;
    MPI_Allreduce(&bad, &anybad, 1, MPI_INT, MPI_MAX, MPI_COMM_WORLD);
    if (!anybad) {      /* orderly shutdown only when the engine state is known to be quiet */
        for (int g = 0; g < ngreg; g++) { parsec_ce.mem_unregister(&greg_h[g]); buf_free(&greg_buf[g]); }
        for (int t = 0; t < ntags; t++) parsec_ce.tag_unregister(utag[t]);
        if (have_ctl) parsec_ce.tag_unregister(ctl_tag);
        parsec_fini(&ctx);
        MPI_Finalize();
        return 0;
    }
    fflush(stdout); fflush(stderr);
    MPI_Barrier(MPI_COMM_WORLD);
    _exit(1);
}
