/* C22: matrix operators visit each tile once (parsec_apply, parsec_map_operator) and reductions combine every tile once.
 * MPI program (1..4 ranks, T threads), several cases per process; every rank generates the same cases from the seed.
 * Observation: the test-owned operator records every invocation (m, n, tile pointer(s), uplo argument, thread) in a
 * per-tile atomic counter and also increments a counter stored INSIDE the tile, so a second invocation is visible both in
 * the log and in the data.  Oracle, per case and per rank: every tile of the requested region owned by this rank was
 * visited exactly once with the pointer of exactly that tile, no other tile was visited, nothing ran on a non-owner;
 * globally the visits add up to the size of the region.  Reductions: operator invocations and result against the
 * sequential fold (injective encoding: tile t contributes 2^t mod (2^61-1) and a commutative checksum). */
#include "parsec/parsec_config.h"
#include "parsec/runtime.h"
#include "parsec/execution_stream.h"
#include "parsec/data_internal.h"
#include "parsec/parsec_internal.h"
#include "parsec/arena.h"
#include "parsec/data_dist/matrix/matrix.h"
#include "parsec/data_dist/matrix/two_dim_rectangle_cyclic.h"
#include "parsec/data_dist/matrix/sym_two_dim_rectangle_cyclic.h"
#include <mpi.h>
#include <setjmp.h>
#include "kit.h"

enum { OP_APPLY, OP_MAP, OP_REDUCE, OP_REDUCE_ROW, OP_REDUCE_COL };
static const char *opname[] = {"apply", "map", "reduce", "reduce_row", "reduce_col"};
enum { D_BC, D_KCYC, D_SYM };
static const char *dname[] = {"2dbc", "kcyclic", "sym"};
static const char *uplo_name(int u) { return u == PARSEC_MATRIX_FULL ? "full" : (u == PARSEC_MATRIX_UPPER ? "upper" : "lower"); }

typedef struct {
    int op, uplo, dist, P, Q, kp, kq, ip, jq, mt, nt, mb, nb, lm, ln, with_dest;
    char desc[256];
} case_t;

static int rank, nranks, nthreads, full_weights;
static parsec_context_t *parsec;

/* ---- monitor state of the running case */
static const case_t *cur;
static int *visits;           /* per tile, this rank */
static void **ptrA, **ptrD;   /* expected tile pointers (local tiles) */
static int *uplo_seen;        /* uplo argument handed to the operator */
static volatile long n_wrong_ptr, n_out_of_range, n_invocations;
static long n_skipped_empty;
static volatile uint64_t thread_mask;
static long tot_cases, tot_tiles, tot_visits, tot_nontrivial, tot_multi_thread_cases, tot_multi_owner_cases, tot_uplo_arg_unexpected;
static long per_op[5], per_uplo[3];
#define DSET (1u << 16)
static uint64_t dhash[DSET]; static long dn;
static void dset_add(uint64_t h) { if (!h) h = 1; size_t k = h & (DSET - 1); for (unsigned t = 0; t < DSET; t++, k = (k + 1) & (DSET - 1)) { if (dhash[k] == h) return; if (!dhash[k]) { dhash[k] = h; dn++; return; } } }

static void viol(const case_t *c, const char *oracle, const char *fmt, ...) {
    char key[160], buf[600]; va_list ap; va_start(ap, fmt); vsnprintf(buf, sizeof buf, fmt, ap); va_end(ap);
    if (c->op == OP_APPLY) snprintf(key, sizeof key, "apply:%s:%s", uplo_name(c->uplo), oracle);
    else snprintf(key, sizeof key, "%s:%s", opname[c->op], oracle);
    vf_violation(key, "rank %d: %s | %s", rank, buf, c->desc);
}

static int in_region(const case_t *c, int m, int n) {
    if (c->op != OP_APPLY || c->uplo == PARSEC_MATRIX_FULL) return 1;
    return c->uplo == PARSEC_MATRIX_LOWER ? m >= n : m <= n;
}

static int apply_op(struct parsec_execution_stream_s *es, const parsec_tiled_matrix_t *desc, void *data, int uplo, int m, int n, void *args) {
    const case_t *c = cur; (void)args; (void)desc;
    __atomic_add_fetch(&n_invocations, 1, __ATOMIC_RELAXED); VF_TICK();
    if (m < 0 || n < 0 || m >= c->mt || n >= c->nt) { __atomic_add_fetch(&n_out_of_range, 1, __ATOMIC_RELAXED); return 0; }
    __atomic_add_fetch(&visits[m * c->nt + n], 1, __ATOMIC_SEQ_CST);
    if (data != ptrA[m * c->nt + n]) __atomic_add_fetch(&n_wrong_ptr, 1, __ATOMIC_RELAXED);
    else __atomic_add_fetch((int *)data, 1, __ATOMIC_SEQ_CST);       /* the visit is also written into the tile */
    uplo_seen[m * c->nt + n] = uplo;
    __atomic_or_fetch(&thread_mask, 1ULL << (es->th_id & 63), __ATOMIC_RELAXED);
    return 0;
}
static int map_op(struct parsec_execution_stream_s *es, const void *src, void *dst, void *op_data, ...) {
    const case_t *c = cur; va_list ap; va_start(ap, op_data); int m = va_arg(ap, int), n = va_arg(ap, int); va_end(ap);
    __atomic_add_fetch(&n_invocations, 1, __ATOMIC_RELAXED); VF_TICK();
    if (op_data != (void *)c) __atomic_add_fetch(&n_wrong_ptr, 1, __ATOMIC_RELAXED);
    if (m < 0 || n < 0 || m >= c->mt || n >= c->nt) { __atomic_add_fetch(&n_out_of_range, 1, __ATOMIC_RELAXED); return 0; }
    __atomic_add_fetch(&visits[m * c->nt + n], 1, __ATOMIC_SEQ_CST);
    if (src != ptrA[m * c->nt + n] || (c->with_dest ? dst != ptrD[m * c->nt + n] : dst != NULL)) __atomic_add_fetch(&n_wrong_ptr, 1, __ATOMIC_RELAXED);
    else { __atomic_add_fetch((int *)src, 1, __ATOMIC_SEQ_CST); if (dst) __atomic_add_fetch((int *)dst, 1, __ATOMIC_SEQ_CST); }
    __atomic_or_fetch(&thread_mask, 1ULL << (es->th_id & 63), __ATOMIC_RELAXED);
    return 0;
}

/* ---- case generation (identical on every rank) */
static void gen_case(case_t *c, uint64_t seed, long idx, int opsel) {
    vf_rng_t r; vf_rng_seed(&r, seed * 7919 + 17, (uint64_t)idx);
    memset(c, 0, sizeof *c);
    c->op = opsel >= 0 ? opsel : (vf_chance(&r, 600) ? OP_APPLY : OP_MAP);
    int f[8], nf = 0; for (int p = 1; p <= nranks; p++) if (nranks % p == 0) f[nf++] = p;
    c->P = f[vf_randn(&r, nf)]; c->Q = nranks / c->P;
    c->mt = 1 + vf_randn(&r, 25); c->nt = 1 + vf_randn(&r, 25);
    if (vf_chance(&r, 150)) c->nt = c->mt;
    c->mb = 1 + vf_randn(&r, 3); c->nb = 1 + vf_randn(&r, 3);
    c->kp = c->kq = 1; c->dist = D_BC; c->uplo = PARSEC_MATRIX_FULL;
    if (vf_chance(&r, 350)) { c->dist = D_KCYC; c->kp = 1 + vf_randn(&r, 3); c->kq = 1 + vf_randn(&r, 3); if (c->kp * c->kq == 1) c->kp = 2; }
    c->ip = vf_randn(&r, c->P); c->jq = vf_randn(&r, c->Q);
    if (c->op == OP_APPLY) {
        int u = vf_randn(&r, 3); c->uplo = u == 0 ? PARSEC_MATRIX_FULL : (u == 1 ? PARSEC_MATRIX_UPPER : PARSEC_MATRIX_LOWER);
        if (c->uplo != PARSEC_MATRIX_FULL && vf_chance(&r, 300)) { c->dist = D_SYM; c->kp = c->kq = 1; c->ip = c->jq = 0; c->nt = c->mt; c->nb = c->mb; }
    }
    if (c->op == OP_MAP) {
        c->with_dest = vf_randn(&r, 2);
        /* recorded finding: the map taskpool never completes on a rank that owns no source tile.  The bulk workload gives
         * every rank at least one tile in nine cases of ten (down-weighted, not removed); the driver also runs the
         * empty-rank shape as a separate probe. */
        if (!full_weights && vf_chance(&r, 900)) { if ((c->mt + c->kp - 1) / c->kp < c->P) c->mt = c->P * c->kp; if ((c->nt + c->kq - 1) / c->kq < c->Q) c->nt = c->Q * c->kq; }
    }
    c->lm = c->mt * c->mb - vf_randn(&r, c->mb); c->ln = c->nt * c->nb - vf_randn(&r, c->nb);
    if (c->dist == D_SYM) c->ln = c->lm;
    snprintf(c->desc, sizeof c->desc, "op=%s uplo=%s dist=%s tiles=%dx%d mb=%d nb=%d lm=%d ln=%d grid=%dx%d k=%dx%d off=%d,%d dest=%d ranks=%d threads=%d idx=%ld",
             opname[c->op], uplo_name(c->uplo), dname[c->dist], c->mt, c->nt, c->mb, c->nb, c->lm, c->ln, c->P, c->Q, c->kp, c->kq, c->ip, c->jq, c->with_dest, nranks, nthreads, idx);
}

typedef struct { parsec_matrix_block_cyclic_t bc; parsec_matrix_sym_block_cyclic_t sym; parsec_tiled_matrix_t *tm; void **mat; } mat_t;
static void mat_build(const case_t *c, mat_t *M) {
    if (c->dist == D_SYM) {
        parsec_matrix_sym_block_cyclic_init(&M->sym, PARSEC_MATRIX_INTEGER, rank, c->mb, c->nb, c->lm, c->ln, 0, 0, c->lm, c->ln, c->P, c->Q, c->uplo);
        M->tm = &M->sym.super; M->mat = &M->sym.mat;
    } else {
        parsec_matrix_block_cyclic_init(&M->bc, PARSEC_MATRIX_INTEGER, PARSEC_MATRIX_TILE, rank, c->mb, c->nb, c->lm, c->ln, 0, 0, c->lm, c->ln, c->P, c->Q, c->kp, c->kq, c->ip, c->jq);
        M->tm = &M->bc.super; M->mat = &M->bc.mat;
    }
    size_t bytes = (size_t)M->tm->nb_local_tiles * M->tm->bsiz * sizeof(int);
    *M->mat = parsec_data_allocate(bytes ? bytes : 8); memset(*M->mat, 0, bytes ? bytes : 8);
}
static void mat_free(mat_t *M) { parsec_data_free(*M->mat); *M->mat = NULL; parsec_tiled_matrix_destroy(M->tm); }

static void run_case(const case_t *c, int sample)
{
    mat_t A, D; int mt = c->mt, nt = c->nt, ntile = mt * nt;
    mat_build(c, &A); if (c->with_dest) mat_build(c, &D);
    if (A.tm->mt != mt || A.tm->nt != nt) { fprintf(stderr, "generator: shape %dx%d != %dx%d\n", A.tm->mt, A.tm->nt, mt, nt); exit(2); }
    parsec_data_collection_t *dA = &A.tm->super, *dD = c->with_dest ? &D.tm->super : NULL;
    visits = calloc(ntile, sizeof(int)); ptrA = calloc(ntile, sizeof(void *)); ptrD = calloc(ntile, sizeof(void *)); uplo_seen = calloc(ntile, sizeof(int));
    int *owner = calloc(ntile, sizeof(int)); long mine = 0, region = 0; int ownerset = 0;
    for (int m = 0; m < mt; m++) for (int n = 0; n < nt; n++) {
        owner[m * nt + n] = -1;
        if (c->dist == D_SYM && !in_region(c, m, n)) continue;      /* not stored */
        int o = (int)dA->rank_of(dA, m, n); owner[m * nt + n] = o; if (in_region(c, m, n)) { region++; ownerset |= 1 << o; }
        if (o == rank) {
            parsec_data_t *d = dA->data_of(dA, m, n); ptrA[m * nt + n] = parsec_data_copy_get_ptr(parsec_data_get_copy(d, 0));
            *(int *)ptrA[m * nt + n] = 1000;
            if (dD) { d = dD->data_of(dD, m, n); ptrD[m * nt + n] = parsec_data_copy_get_ptr(parsec_data_get_copy(d, 0)); *(int *)ptrD[m * nt + n] = 5000; }
            if (in_region(c, m, n)) mine++;
        }
    }
    n_wrong_ptr = n_out_of_range = n_invocations = 0; thread_mask = 0; cur = c;
    int rc = 0;
    if (c->op == OP_APPLY) {
        rc = parsec_apply(parsec, c->uplo, A.tm, apply_op, (void *)c);
        if (rc != PARSEC_SUCCESS) viol(c, "returned-error", "parsec_apply returned %d", rc);
    } else {
        parsec_taskpool_t *tp = parsec_map_operator_New(A.tm, c->with_dest ? D.tm : NULL, map_op, (void *)c);
        if (!tp) viol(c, "returned-error", "parsec_map_operator_New returned NULL");
        else if (0 == tp->nb_tasks && 0 != tp->nb_pending_actions) {
            /* State oracle instead of a hang: the taskpool holds a pending action that only the completion of its last
             * local task releases, and it has no local task: once enqueued, parsec_context_wait can never return on this
             * rank.  It is not enqueued (the other ranks run theirs, the operator makes no communication). */
            viol(c, "never-completes:rank-without-source-tiles", "taskpool created with nb_tasks=0 and nb_pending_actions=%d: nothing can ever release the pending action, parsec_context_wait would not return", (int)tp->nb_pending_actions);
            n_skipped_empty++;
            parsec_taskpool_free(tp);
            /* starting the context synchronises the ranks' communication engines: take part with nothing enqueued */
            parsec_context_start(parsec); parsec_context_wait(parsec);
        } else {
            parsec_context_add_taskpool(parsec, tp); parsec_context_start(parsec); parsec_context_wait(parsec);
            parsec_taskpool_free(tp);
        }
    }
    /* ---- oracle */
    long seen = 0;
    for (int m = 0; m < mt; m++) for (int n = 0; n < nt; n++) {
        int k = m * nt + n, v = visits[k], exp = (owner[k] == rank && in_region(c, m, n)) ? 1 : 0; seen += v;
        if (v == exp) {
            if (exp && *(int *)ptrA[k] != 1001) viol(c, "tile-data-not-updated-once", "tile (%d,%d): counter inside the tile is %d after one logged visit (1000 before)", m, n, *(int *)ptrA[k]);
            if (exp && dD && *(int *)ptrD[k] != 5001) viol(c, "dest-tile-data-not-updated-once", "tile (%d,%d): counter inside the destination tile is %d", m, n, *(int *)ptrD[k]);
            if (exp && c->op == OP_APPLY) { int want = (m == n) ? c->uplo : PARSEC_MATRIX_FULL; if (uplo_seen[k] != want) tot_uplo_arg_unexpected++; }
            continue;
        }
        if (exp == 1 && v == 0) viol(c, "tile-not-visited", "tile (%d,%d) of the region, owned here, was never handed to the operator", m, n);
        else if (exp == 1) viol(c, "tile-visited-more-than-once", "tile (%d,%d) was handed to the operator %d times", m, n, v);
        else if (owner[k] != rank) viol(c, "visited-on-non-owner", "tile (%d,%d) owned by rank %d was handed to the operator here (%d times)", m, n, owner[k], v);
        else viol(c, "visited-outside-region", "tile (%d,%d) outside the %s region was handed to the operator (%d times)", m, n, uplo_name(c->uplo), v);
    }
    if (n_out_of_range) viol(c, "coordinates-out-of-range", "%ld invocations with coordinates outside the %dx%d tile grid", (long)n_out_of_range, mt, nt);
    if (n_wrong_ptr) viol(c, "wrong-tile-pointer", "%ld invocations received a pointer that is not the storage of the named tile", (long)n_wrong_ptr);
    long gl[2] = {seen, mine}, gs[2];
    MPI_Allreduce(gl, gs, 2, MPI_LONG, MPI_SUM, MPI_COMM_WORLD);
    if (rank == 0 && gs[0] != region) viol(c, "global-visit-count", "all ranks together logged %ld visits, the region has %ld tiles", gs[0], region);
    if (rank == 0 && gs[1] != region) { fprintf(stderr, "harness: owners do not partition the region (%ld vs %ld)\n", gs[1], region); }
    unsigned long long tm = thread_mask, gtm = 0; MPI_Allreduce(&tm, &gtm, 1, MPI_UNSIGNED_LONG_LONG, MPI_BOR, MPI_COMM_WORLD);
    int nth = __builtin_popcountll(gtm), nown = __builtin_popcount(ownerset);
    tot_cases++; tot_tiles += region; tot_visits += gs[0]; per_op[c->op]++; per_uplo[c->uplo == PARSEC_MATRIX_FULL ? 0 : (c->uplo == PARSEC_MATRIX_UPPER ? 1 : 2)]++;
    if (nth >= 2) tot_multi_thread_cases++;
    if (nown >= 2) tot_multi_owner_cases++;
    if (region >= 6 && mt >= 2 && nt >= 2) { tot_nontrivial++; uint64_t h = 77; for (const char *s = c->desc; *s && strncmp(s, " idx=", 5); s++) h = vf_mix(h, (uint64_t)*s); dset_add(h); }
    if (sample && rank == 0) vf_out("{\"type\":\"sample\",\"case\":\"%s\",\"region_tiles\":%ld,\"visits_all_ranks\":%ld,\"threads_that_ran_the_operator\":%d,\"owners\":%d}", c->desc, region, gs[0], nth, nown);
    free(visits); free(ptrA); free(ptrD); free(uplo_seen); free(owner);
    mat_free(&A); if (c->with_dest) mat_free(&D);
}

/* ---------------------------------------------------------------- reductions */
#define MOD61 ((1ULL << 61) - 1)
static volatile long red_invocations;
static int red_op(struct parsec_execution_stream_s *es, const void *src, void *dst, void *op_data, ...) {
    (void)es; (void)op_data;
    __atomic_add_fetch(&red_invocations, 1, __ATOMIC_RELAXED); VF_TICK();
    if (src && dst) { uint64_t *d = dst; const uint64_t *s = src; d[0] = (d[0] + s[0]) % MOD61; d[1] += s[1]; }
    return 0;
}
static uint64_t pow2mod(int t) { uint64_t v = 1; for (int i = 0; i < t; i++) v = (v * 2) % MOD61; return v; }

static void run_reduce(const case_t *c, int sample)
{
    /* source: mt x nt tiles of one element pair each (mb = 2 doubles reinterpreted as two 64-bit words, nb = 1) */
    parsec_matrix_block_cyclic_t S, R; int mt = c->mt, nt = c->nt;
    parsec_matrix_block_cyclic_init(&S, PARSEC_MATRIX_DOUBLE, PARSEC_MATRIX_TILE, rank, 2, 1, 2 * mt, nt, 0, 0, 2 * mt, nt, c->P, c->Q, 1, 1, 0, 0);
    S.mat = parsec_data_allocate((size_t)(S.super.nb_local_tiles + 1) * 16); memset(S.mat, 0, (size_t)(S.super.nb_local_tiles + 1) * 16);
    int rmt = c->op == OP_REDUCE_COL ? 1 : (c->op == OP_REDUCE_ROW ? mt : 1), rnt = c->op == OP_REDUCE_COL ? nt : 1;
    if (c->op == OP_REDUCE_ROW) { rmt = 1; rnt = nt; }
    parsec_matrix_block_cyclic_init(&R, PARSEC_MATRIX_DOUBLE, PARSEC_MATRIX_TILE, rank, 2, 1, 2 * rmt, rnt, 0, 0, 2 * rmt, rnt, 1, nranks, 1, 1, 0, 0);
    R.mat = parsec_data_allocate((size_t)(R.super.nb_local_tiles + 1) * 16); memset(R.mat, 0xEE, (size_t)(R.super.nb_local_tiles + 1) * 16);
    parsec_data_collection_t *dS = &S.super.super, *dR = &R.super.super;
    for (int m = 0; m < mt; m++) for (int n = 0; n < nt; n++) if ((int)dS->rank_of(dS, m, n) == rank) {
        uint64_t *p = parsec_data_copy_get_ptr(parsec_data_get_copy(dS->data_of(dS, m, n), 0)); p[0] = pow2mod(m * nt + n); p[1] = 1000003ULL * (m * nt + n) + 7;
    }
    red_invocations = 0; cur = c;
    parsec_taskpool_t *tp = NULL;
    if (c->op == OP_REDUCE_COL) tp = parsec_reduce_col_New(&S.super, &R.super, red_op, NULL);
    else if (c->op == OP_REDUCE_ROW) tp = parsec_reduce_row_New(&S.super, &R.super, red_op, NULL);
    if (!tp) viol(c, "returned-error", "New returned NULL");
    else { parsec_context_add_taskpool(parsec, tp); parsec_context_start(parsec); parsec_context_wait(parsec); parsec_taskpool_free(tp); }
    long inv = red_invocations, ginv = 0; MPI_Allreduce(&inv, &ginv, 1, MPI_LONG, MPI_SUM, MPI_COMM_WORLD);
    long need = c->op == OP_REDUCE_COL ? (long)(mt - 1) * nt : (long)(mt - 1) * nt;
    if (rank == 0 && ginv < need) viol(c, "operator-not-invoked", "combining %d x %d tiles needs at least %ld operator invocations, %ld happened", mt, nt, need, ginv);
    /* result against the sequential fold: column n of the result == fold over m of tile (m, n) */
    for (int n = 0; n < rnt; n++) if ((int)dR->rank_of(dR, 0, n) == rank) {
        uint64_t *p = parsec_data_copy_get_ptr(parsec_data_get_copy(dR->data_of(dR, 0, n), 0));
        uint64_t e0 = 0, e1 = 0; for (int m = 0; m < mt; m++) { e0 = (e0 + pow2mod(m * nt + n)) % MOD61; e1 += 1000003ULL * (m * nt + n) + 7; }
        if (p[0] != e0 || p[1] != e1) { viol(c, "result-differs-from-sequential-fold", "result tile %d holds (%llx,%llx), the fold of column %d is (%llx,%llx)", n, (unsigned long long)p[0], (unsigned long long)p[1], n, (unsigned long long)e0, (unsigned long long)e1); break; }
    }
    tot_cases++; per_op[c->op]++; tot_tiles += (long)mt * nt; tot_visits += ginv;
    if (sample && rank == 0) vf_out("{\"type\":\"sample\",\"case\":\"%s\",\"operator_invocations\":%ld}", c->desc, ginv);
    parsec_data_free(S.mat); parsec_data_free(R.mat); parsec_tiled_matrix_destroy(&S.super); parsec_tiled_matrix_destroy(&R.super);
}

/* assertion failures inside the library: recorded (same key format as the driver uses), then the process ends: a
 * multi-rank runtime cannot be unwound safely */
void __assert_fail(const char *assertion, const char *file, unsigned int line, const char *function) {
    const char *b = strrchr(file, '/'); b = b ? b + 1 : file;
    fprintf(stderr, "library assertion (%s) failed at %s:%u in %s: recorded, process ends\n", assertion, file, line, function); fflush(stderr);
    if (cur) { char o[160]; snprintf(o, sizeof o, "assert:%s:%s", b, function); viol(cur, o, "assertion `%s' failed at %s:%u", assertion, b, line); }
    fflush(stdout);
    _exit(1);   /* 1 = "violations were reported" for the driver */
}

int main(int argc, char **argv)
{
    /* heartbeat from rank 0 only (known before MPI_Init from the launcher's environment): the driver compares the last
     * heartbeat lines textually, and lines of several ranks interleave in changing order.  Every case ends in a
     * collective, so a rank that hangs stops rank 0 at the end of the same case. */
    const char *envrank = getenv("OMPI_COMM_WORLD_RANK"); int hb_on = !envrank || atoi(envrank) == 0;
    if (hb_on) vf_heartbeat_start();
    int prov; MPI_Init_thread(&argc, &argv, MPI_THREAD_SERIALIZED, &prov);
    VF_TICK();
    MPI_Comm_rank(MPI_COMM_WORLD, &rank); MPI_Comm_size(MPI_COMM_WORLD, &nranks);
    nthreads = (int)vf_arg_ll(argc, argv, "--threads", 2);
    long cases = vf_arg_ll(argc, argv, "--cases", 10), start = vf_arg_ll(argc, argv, "--start", 0);
    uint64_t seed = (uint64_t)vf_arg_ll(argc, argv, "--seed", 1);
    const char *mode = vf_arg(argc, argv, "--mode", "ops");
    full_weights = vf_has_flag(argc, argv, "--full-weights");
    int pargc = 1; char *pargv0[] = {argv[0], NULL}; char **pargv = pargv0;
    parsec = parsec_init(nthreads, &pargc, &pargv);
    if (!parsec) { fprintf(stderr, "parsec_init failed\n"); return 2; }
    VF_TICK();
    case_t c;
    for (long k = start; k < cases; k++) {
        VF_TICK();
        if (!strcmp(mode, "map_race")) {
            /* many very short tile columns: every task completion ends a column and claims the next one, so the threads
             * contend for the column counter all the time */
            gen_case(&c, seed, k, OP_MAP); c.dist = D_BC; c.kp = c.kq = 1; c.ip = c.jq = 0; c.mt = 1 + (int)(k % 2); c.nt = 150 + 50 * (int)(k % 4); c.mb = c.nb = 1;
            c.lm = c.mt; c.ln = c.nt; c.P = nranks; c.Q = 1; c.with_dest = (int)(k % 3 == 0);
            if (c.mt < c.P) c.mt = c.lm = c.P;
            snprintf(c.desc, sizeof c.desc, "op=map dist=2dbc tiles=%dx%d (short columns) grid=%dx%d dest=%d ranks=%d threads=%d idx=%ld", c.mt, c.nt, c.P, c.Q, c.with_dest, nranks, nthreads, k);
            if (rank == 0) { fprintf(stderr, "VFAT %ld %s\n", k, c.desc); fflush(stderr); } run_case(&c, k < start + 1);
        } else if (!strcmp(mode, "map_empty_rank")) {
            gen_case(&c, seed, k, OP_MAP); c.dist = D_BC; c.kp = c.kq = 1; c.ip = c.jq = 0; c.mt = 1; c.nt = 1 + (int)(k % 2); c.lm = c.mb; c.ln = c.nt * c.nb; c.P = 1; c.Q = nranks;
            snprintf(c.desc, sizeof c.desc, "op=map dist=2dbc tiles=%dx%d grid=%dx%d dest=%d ranks=%d threads=%d (fewer tiles than ranks) idx=%ld", c.mt, c.nt, c.P, c.Q, c.with_dest, nranks, nthreads, k);
            if (rank == 0) { fprintf(stderr, "VFAT %ld %s\n", k, c.desc); fflush(stderr); } run_case(&c, 1);
        } else if (!strcmp(mode, "ops")) { gen_case(&c, seed, k, -1); if (rank == 0) { fprintf(stderr, "VFAT %ld %s\n", k, c.desc); fflush(stderr); } run_case(&c, k < start + 2); }
        else {
            int op = !strcmp(mode, "reduce_col") ? OP_REDUCE_COL : OP_REDUCE_ROW;
            gen_case(&c, seed, k, op); c.mt = (int)vf_arg_ll(argc, argv, "--mt", 1 + (k % 9)); c.nt = (int)vf_arg_ll(argc, argv, "--nt", 1 + (k % 3));
            snprintf(c.desc, sizeof c.desc, "op=%s tiles=%dx%d grid=%dx%d ranks=%d threads=%d idx=%ld", opname[op], c.mt, c.nt, c.P, c.Q, nranks, nthreads, k);
            if (rank == 0) { fprintf(stderr, "VFAT %ld %s\n", k, c.desc); fflush(stderr); }
            run_reduce(&c, k < start + 2);
        }
    }
    cur = NULL;
    if (hb_on) vf_heartbeat_stop();
    long l[2] = {vf_nviolations, 0}, g[2]; MPI_Allreduce(l, g, 2, MPI_LONG, MPI_SUM, MPI_COMM_WORLD);
    if (rank == 0)
        vf_out("{\"type\":\"summary\",\"mode\":\"%s\",\"cases\":%ld,\"nontrivial\":%ld,\"distinct_nontrivial\":%ld,\"region_tiles\":%ld,\"visits\":%ld,\"multi_thread_cases\":%ld,\"multi_owner_cases\":%ld,"
               "\"apply\":%ld,\"map\":%ld,\"reduce_row\":%ld,\"reduce_col\":%ld,\"uplo_full\":%ld,\"uplo_upper\":%ld,\"uplo_lower\":%ld,\"apply_uplo_argument_unexpected\":%ld,\"ranks\":%d,\"threads\":%d,\"violations\":%ld}",
               mode, tot_cases, tot_nontrivial, dn, tot_tiles, tot_visits, tot_multi_thread_cases, tot_multi_owner_cases, per_op[OP_APPLY], per_op[OP_MAP], per_op[OP_REDUCE_ROW], per_op[OP_REDUCE_COL],
               per_uplo[0], per_uplo[1], per_uplo[2], tot_uplo_arg_unexpected, nranks, nthreads, g[0]);
    parsec_fini(&parsec);
    MPI_Finalize();
    return g[0] ? 1 : 0;
}
