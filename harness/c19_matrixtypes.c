/* C19: matrix datatypes select exactly the specified elements.
 * Exhaustive box: m,n in 1..M, ld in m..m+L, diag in {0,1}, uplo in {full, upper, lower},
 * element types int / double / double complex, resized in a list (only meaningful for full tiles),
 * through parsec_matrix_define_datatype, the direct parsec_matrix_define_{triangle,rectangle,contiguous},
 * parsec_matrix_arena_datatype_define_type and the parsec_matrix_adt_{define,new}_{rect,upper,lower,square} wrappers.
 *
 * Observation: the byte string MPI_Pack produces from a marker tile (every element holds bytes derived from its
 * linear index, padding rows and guard zones hold poisons), MPI_Unpack of a fresh payload into a poisoned tile,
 * MPI_Type_get_extent / the extent returned by parsec / the arena element size.
 * Oracle: packed bytes == the elements of the mathematical region in column-major order, nothing else;
 * unpack writes exactly those elements; [lb, lb+extent) covers the tile ((n-1)*ld+m elements); when the caller
 * asks for an explicit extent (resized >= 0) the extent is the one requested. */
#include "parsec/parsec_config.h"
#include "parsec/runtime.h"
#include "parsec/arena.h"
#include "parsec/parsec_internal.h"
#include "parsec/data_dist/matrix/matrix.h"
#include <mpi.h>
#include "kit.h"

enum { U_FULL = 0, U_UPPER = 1, U_LOWER = 2 };
static const char *uname[] = {"full", "upper", "lower"};
static const int ucode[] = {PARSEC_MATRIX_FULL, PARSEC_MATRIX_UPPER, PARSEC_MATRIX_LOWER};

typedef struct { const char *name; parsec_datatype_t t; int es; } elt_t;

static uint64_t salt;
static long n_cases, n_nontrivial, n_packed_elts, n_empty, n_unpack, n_extent_natural, n_extent_exact_ldn, n_extent_requested;
static long per_uplo[3], per_api[8], per_type[3];
static const char *apiname[] = {"define_datatype", "define_direct", "adt_define_type", "adt_define_short", "adt_new_short"};

/* distinct set of non-trivial case hashes (measured, open addressing) */
static uint64_t *dset; static size_t dcap, dn;
static void dset_add(uint64_t h) {
    if (!h) h = 1;
    if (dn * 2 >= dcap) {
        size_t nc = dcap ? dcap * 2 : 1 << 16; uint64_t *nd = calloc(nc, sizeof *nd);
        for (size_t i = 0; i < dcap; i++) if (dset[i]) { size_t k = dset[i] % nc; while (nd[k]) k = (k + 1) % nc; nd[k] = dset[i]; }
        free(dset); dset = nd; dcap = nc;
    }
    size_t k = h % dcap;
    while (dset[k]) { if (dset[k] == h) return; k = (k + 1) % dcap; }
    dset[k] = h; dn++;
}

static inline unsigned char marker(long elt, int b) { return (unsigned char)(vf_mix((uint64_t)elt + 1 + salt, (uint64_t)b) | 1); }
static inline unsigned char payload(long k, int b) { return (unsigned char)(vf_mix((uint64_t)k * 977 + 13 + salt, (uint64_t)b + 101) | 2); }
#define POISON_PAD   0xEE   /* rows m..ld-1 */
#define POISON_GUARD 0xDD   /* before / after the tile */
#define POISON_TILE  0xA5   /* target of unpack */

static int selected(int u, int diag, int i, int j) {
    if (u == U_FULL) return 1;
    if (u == U_UPPER) return i < j || (diag && i == j);
    return i > j || (diag && i == j);
}

/* Check one built datatype. ext_reported: what parsec handed back (or arena elem size), -1 if none. */
static void check_type(int api, const elt_t *et, int ti, int u, int diag, int m, int n, int ld, int resized,
                       MPI_Datatype t, long ext_reported, int sampled)
{
    int es = et->es;
    long tile_elts = (long)ld * n, cover = ((long)(n - 1) * ld + m);
    long guard = (long)(ld + 4) * es * 2 + 64;
    long tot = guard * 2 + tile_elts * es;
    unsigned char *raw = malloc(tot), *tile = raw + guard;
    memset(raw, POISON_GUARD, tot);
    for (int j = 0; j < n; j++) for (int i = 0; i < ld; i++) for (int b = 0; b < es; b++)
        tile[((long)j * ld + i) * es + b] = (i < m) ? marker((long)j * ld + i, b) : POISON_PAD;
    long ne = 0; long *exp = malloc(sizeof(long) * (tile_elts + 1));
    for (int j = 0; j < n; j++) for (int i = 0; i < m; i++) if (selected(u, diag, i, j)) exp[ne++] = (long)j * ld + i;

    char desc[256];
    snprintf(desc, sizeof desc, "api=%s type=%s uplo=%s diag=%d m=%d n=%d ld=%d resized=%d", apiname[api], et->name, uname[u], diag, m, n, ld, resized);
    char key[128];

    int tsz = 0; MPI_Type_size(t, &tsz);
    if ((long)tsz != ne * es) {
        snprintf(key, sizeof key, "pack:%s:count", uname[u]);
        vf_violation(key, "%s: type size %d bytes = %ld elements, region has %ld", desc, tsz, (long)tsz / es, ne);
    }
    int psize = 0; MPI_Pack_size(1, t, MPI_COMM_SELF, &psize);
    long bufsz = (long)psize + tile_elts * es + 64;
    unsigned char *buf = malloc(bufsz); memset(buf, 0x77, bufsz);
    int pos = 0;
    MPI_Pack(tile, 1, t, buf, (int)bufsz, &pos, MPI_COMM_SELF);
    long got = pos / es;
    int ok = 1;
    if (pos != ne * es) {
        ok = 0; snprintf(key, sizeof key, "pack:%s:count", uname[u]);
        vf_violation(key, "%s: packed %d bytes = %ld elements, region has %ld", desc, pos, got, ne);
    } else {
        for (long k = 0; k < ne && ok; k++) for (int b = 0; b < es; b++)
            if (buf[k * es + b] != marker(exp[k], b)) {
                /* find which element it is instead */
                long w = -1; for (long e = 0; e < tile_elts && w < 0; e++) { int same = 1; for (int bb = 0; bb < es; bb++) if (buf[k * es + bb] != tile[e * es + bb]) { same = 0; break; } if (same) w = e; }
                ok = 0; snprintf(key, sizeof key, "pack:%s:element", uname[u]);
                vf_violation(key, "%s: packed element #%ld should be (i=%ld,j=%ld) but is %s (i=%ld,j=%ld)", desc, k, exp[k] % ld, exp[k] / ld,
                             w < 0 ? "not a tile element" : ((w % ld) >= m ? "a padding element" : "tile element"), w < 0 ? -1 : w % ld, w < 0 ? -1 : w / ld);
                break;
            }
    }
    n_packed_elts += ne;

    /* unpack a fresh payload of exactly ne elements into a poisoned tile */
    {
        unsigned char *pay = malloc(ne * es + 8);
        for (long k = 0; k < ne; k++) for (int b = 0; b < es; b++) pay[k * es + b] = payload(k, b);
        memset(raw, POISON_GUARD, tot); memset(tile, POISON_TILE, tile_elts * es);
        if ((long)tsz == ne * es) {   /* otherwise unpack would read past the payload: already reported */
            int upos = 0;
            MPI_Unpack(pay, (int)(ne * es), &upos, tile, 1, t, MPI_COMM_SELF);
            long k = 0; int uok = 1;
            for (long e = 0; e < tile_elts && uok; e++) {
                int i = (int)(e % ld), j = (int)(e / ld);
                int sel = i < m && selected(u, diag, i, j);
                for (int b = 0; b < es; b++) {
                    unsigned char want = sel ? payload(k, b) : POISON_TILE;
                    if (tile[e * es + b] != want) {
                        uok = 0; snprintf(key, sizeof key, "unpack:%s:%s", uname[u], sel ? "selected-element-wrong" : "touched-unselected");
                        vf_violation(key, "%s: after unpack element (i=%d,j=%d) byte %d is 0x%02x, expected 0x%02x (%s)", desc, i, j, b, tile[e * es + b], want, sel ? "payload" : "untouched poison");
                        break;
                    }
                }
                if (sel) k++;
            }
            for (long g = 0; g < guard && uok; g++) if (raw[g] != POISON_GUARD || tile[tile_elts * es + g] != POISON_GUARD) {
                uok = 0; snprintf(key, sizeof key, "unpack:%s:outside-tile", uname[u]);
                vf_violation(key, "%s: unpack wrote outside the ld*n tile buffer (guard byte %ld)", desc, g);
            }
            n_unpack++;
        }
        free(pay);
    }

    /* extent */
    MPI_Aint lb = 0, ext = 0; MPI_Type_get_extent(t, &lb, &ext);
    if (ext_reported >= 0 && ext_reported != (long)ext) {
        snprintf(key, sizeof key, "extent:%s:reported-differs", uname[u]);
        vf_violation(key, "%s: extent handed back by parsec %ld differs from MPI_Type_get_extent %ld", desc, ext_reported, (long)ext);
    }
    if (lb > 0 || (long)(lb + ext) < cover * es) {
        snprintf(key, sizeof key, "extent:%s:does-not-cover-tile", uname[u]);
        vf_violation(key, "%s: [lb=%ld, lb+extent=%ld) does not cover the tile of %ld bytes", desc, (long)lb, (long)(lb + ext), cover * es);
    }
    if (u == U_FULL && resized >= 0 && (long)ext != (long)resized * es) {
        snprintf(key, sizeof key, "extent:%s:resized-not-honoured", uname[u]);
        vf_violation(key, "%s: extent %ld, requested %ld", desc, (long)ext, (long)resized * es);
    }
    if ((long)ext == cover * es) n_extent_natural++;
    if ((long)ext == tile_elts * es) n_extent_exact_ldn++;
    if (u == U_FULL && resized >= 0 && (long)ext == (long)resized * es) n_extent_requested++;

    n_cases++; per_uplo[u]++; per_api[api]++; per_type[ti]++; vf_progress++;
    if (ne == 0) n_empty++;
    int nontrivial = ne > 0 && (ne < tile_elts);   /* a proper, non-empty subset of the ld*n buffer */
    if (nontrivial) {
        n_nontrivial++;
        dset_add(vf_mix(vf_mix(vf_mix((uint64_t)api * 7 + ti, (uint64_t)u * 2 + diag), ((uint64_t)m << 40) | ((uint64_t)n << 20) | ld), (uint64_t)(resized + 2)));
    }
    if (sampled && ok) {
        char lst[400]; int o = 0; lst[0] = 0;
        for (long k = 0; k < ne && o < 360; k++) o += snprintf(lst + o, sizeof lst - o, "%s[%ld,%ld]", k ? "," : "", exp[k] % ld, exp[k] / ld);
        vf_out("{\"type\":\"sample\",\"case\":\"%s\",\"packed_elements\":%ld,\"lb\":%ld,\"extent\":%ld,\"region\":\"%s\"}", desc, ne, (long)lb, (long)ext, lst);
    }
    free(buf); free(exp); free(raw);
}

int main(int argc, char **argv)
{
    MPI_Init(&argc, &argv);
    /* a constructor that hands MPI illegal arguments must surface as a failed definition, not as an MPI abort */
    MPI_Comm_set_errhandler(MPI_COMM_WORLD, MPI_ERRORS_RETURN); MPI_Comm_set_errhandler(MPI_COMM_SELF, MPI_ERRORS_RETURN);
    int M = (int)vf_arg_ll(argc, argv, "--mmax", 12), L = (int)vf_arg_ll(argc, argv, "--ldextra", 3);
    int rmodes = (int)vf_arg_ll(argc, argv, "--resized-modes", 1);   /* 1: {-1}; 3: {-1, exact ld*n, larger} */
    salt = (uint64_t)vf_arg_ll(argc, argv, "--seed", 1) * 0x9E3779B97F4A7C15ULL;
    int do_adt = !vf_has_flag(argc, argv, "--no-adt");
    elt_t types[3] = {{"int", parsec_datatype_int_t, sizeof(int)}, {"double", parsec_datatype_double_t, sizeof(double)},
                      {"double_complex", parsec_datatype_double_complex_t, 2 * sizeof(double)}};
    for (int ti = 0; ti < 3; ti++) { int s = 0; MPI_Type_size(types[ti].t, &s); if (s != types[ti].es) { fprintf(stderr, "element size mismatch %s %d\n", types[ti].name, s); return 2; } }
    vf_heartbeat_start();
    static const int samp[5][6] = {{0,4,5,1,1,1}, {1,5,3,0,0,2}, {2,3,4,2,1,2}, {0,6,6,3,0,1}, {1,4,4,1,0,0}};
    for (int ti = 0; ti < 3; ti++) for (int m = 1; m <= M; m++) for (int n = 1; n <= M; n++) for (int ld = m; ld <= m + L; ld++)
    for (int diag = 0; diag <= 1; diag++) for (int u = 0; u < 3; u++) {
        const elt_t *et = &types[ti]; MPI_Datatype old = et->t;
        int nres = (u == U_FULL) ? rmodes : 1;
        for (int rk = 0; rk < nres; rk++) {
            int resized = rk == 0 ? -1 : (rk == 1 ? ld * n : ld * n + 5);
            if (u == U_FULL && diag == 1 && rk > 0) continue;   /* diag is irrelevant for full: keep one copy of the resized variants */
            int sampled = 0;
            if (rk == 0) for (int q = 0; q < 5; q++) if (samp[q][0] == ti && samp[q][1] == m && samp[q][2] == n && samp[q][3] == ld - m && samp[q][4] == diag && samp[q][5] == u) sampled = 1;
            /* (a) the general entry point */
            parsec_datatype_t t = PARSEC_DATATYPE_NULL; ptrdiff_t ext = -7;
            int rc = parsec_matrix_define_datatype(&t, old, ucode[u], diag, m, n, ld, resized, &ext);
            if (rc != PARSEC_SUCCESS) vf_violation("define:failed", "parsec_matrix_define_datatype type=%s uplo=%s diag=%d m=%d n=%d ld=%d resized=%d returned %d", et->name, uname[u], diag, m, n, ld, resized, rc);
            else { check_type(0, et, ti, u, diag, m, n, ld, resized, t, (long)ext, sampled); parsec_type_free(&t); }
            /* (b) the anchored constructors called directly */
            t = PARSEC_DATATYPE_NULL;
            if (u == U_FULL && diag == 1) {
                /* diag is not an input of the direct rectangle constructors */
            } else if (u == U_FULL) {
                rc = parsec_matrix_define_rectangle(old, m, n, ld, resized, &t);
                if (rc == PARSEC_SUCCESS) { check_type(1, et, ti, u, diag, m, n, ld, resized, t, -1, 0); parsec_type_free(&t); }
                else vf_violation("define:failed", "parsec_matrix_define_rectangle type=%s m=%d n=%d ld=%d resized=%d returned %d", et->name, m, n, ld, resized, rc);
                if (m == ld) {
                    rc = parsec_matrix_define_contiguous(old, ld * n, resized, &t);
                    if (rc == PARSEC_SUCCESS) { check_type(1, et, ti, u, diag, m, n, ld, resized, t, -1, 0); parsec_type_free(&t); }
                    else vf_violation("define:failed", "parsec_matrix_define_contiguous type=%s nb=%d returned %d", et->name, ld * n, rc);
                }
            } else {
                rc = parsec_matrix_define_triangle(old, ucode[u], diag, m, n, ld, &t);
                if (rc == PARSEC_SUCCESS) { check_type(1, et, ti, u, diag, m, n, ld, resized, t, -1, 0); parsec_type_free(&t); }
                else vf_violation("define:failed", "parsec_matrix_define_triangle type=%s uplo=%s diag=%d m=%d n=%d ld=%d returned %d", et->name, uname[u], diag, m, n, ld, rc);
            }
            if (!do_adt) continue;
            /* (c) arena-datatype entry point */
            {
                parsec_arena_datatype_t *adt = parsec_arena_datatype_new();
                rc = parsec_matrix_arena_datatype_define_type(adt, old, ucode[u], diag, m, n, ld, PARSEC_ARENA_ALIGNMENT_SSE, resized);
                if (rc != PARSEC_SUCCESS || NULL == adt->arena) vf_violation("define:failed", "parsec_matrix_arena_datatype_define_type type=%s uplo=%s m=%d n=%d ld=%d returned %d", et->name, uname[u], m, n, ld, rc);
                else { check_type(2, et, ti, u, diag, m, n, ld, resized, adt->opaque_dtt, (long)adt->arena->elem_size, 0); }
                parsec_matrix_adt_free(&adt);
            }
            /* (d) shorthands: each is called once for the parameter set it can express */
            if (rk == 0) {
                parsec_arena_datatype_t *adt = NULL, *adt2 = NULL; int have = 0;
                if (u == U_FULL && diag == 0) {
                    adt = parsec_arena_datatype_new(); rc = parsec_matrix_adt_define_rect(adt, old, m, n, ld); adt2 = parsec_matrix_adt_new_rect(old, m, n, ld); have = 1;
                    if (m == n && ld == m) {
                        parsec_arena_datatype_t *s1 = parsec_arena_datatype_new(); int rc2 = parsec_matrix_adt_define_square(s1, old, m);
                        parsec_arena_datatype_t *s2 = parsec_matrix_adt_new_square(old, m);
                        if (rc2 == PARSEC_SUCCESS && s1->arena) check_type(3, et, ti, u, diag, m, n, ld, -1, s1->opaque_dtt, (long)s1->arena->elem_size, 0);
                        else vf_violation("define:failed", "parsec_matrix_adt_define_square type=%s m=%d returned %d", et->name, m, rc2);
                        if (s2 && s2->arena) check_type(4, et, ti, u, diag, m, n, ld, -1, s2->opaque_dtt, (long)s2->arena->elem_size, 0);
                        else vf_violation("define:failed", "parsec_matrix_adt_new_square type=%s m=%d failed", et->name, m);
                        parsec_matrix_adt_free(&s1); parsec_matrix_adt_free(&s2);
                    }
                } else if (u != U_FULL && m == n && ld == m) {
                    adt = parsec_arena_datatype_new(); have = 1;
                    if (u == U_UPPER) { rc = parsec_matrix_adt_define_upper(adt, old, diag, m); adt2 = parsec_matrix_adt_new_upper(old, diag, m); }
                    else { rc = parsec_matrix_adt_define_lower(adt, old, diag, m); adt2 = parsec_matrix_adt_new_lower(old, diag, m); }
                }
                if (have) {
                    if (rc == PARSEC_SUCCESS && adt->arena) check_type(3, et, ti, u, diag, m, n, ld, -1, adt->opaque_dtt, (long)adt->arena->elem_size, 0);
                    else vf_violation("define:failed", "parsec_matrix_adt_define_%s type=%s m=%d n=%d ld=%d returned %d", u == U_FULL ? "rect" : uname[u], et->name, m, n, ld, rc);
                    if (adt2 && adt2->arena) check_type(4, et, ti, u, diag, m, n, ld, -1, adt2->opaque_dtt, (long)adt2->arena->elem_size, 0);
                    else vf_violation("define:failed", "parsec_matrix_adt_new_%s type=%s m=%d n=%d ld=%d failed", u == U_FULL ? "rect" : uname[u], et->name, m, n, ld);
                    parsec_matrix_adt_free(&adt); parsec_matrix_adt_free(&adt2);
                }
            }
        }
    }
    vf_heartbeat_stop();
    vf_out("{\"type\":\"summary\",\"cases\":%ld,\"nontrivial\":%ld,\"distinct_nontrivial\":%ld,\"empty_regions\":%ld,\"packed_elements\":%ld,\"unpacks\":%ld,"
           "\"extent_natural\":%ld,\"extent_ldn\":%ld,\"extent_requested\":%ld,\"uplo\":{\"full\":%ld,\"upper\":%ld,\"lower\":%ld},"
           "\"api\":{\"define_datatype\":%ld,\"define_direct\":%ld,\"adt_define_type\":%ld,\"adt_define_short\":%ld,\"adt_new_short\":%ld},"
           "\"types\":{\"int\":%ld,\"double\":%ld,\"double_complex\":%ld},\"mmax\":%d,\"ldextra\":%d,\"resized_modes\":%d,\"violations\":%d}",
           n_cases, n_nontrivial, (long)dn, n_empty, n_packed_elts, n_unpack, n_extent_natural, n_extent_exact_ldn, n_extent_requested,
           per_uplo[0], per_uplo[1], per_uplo[2], per_api[0], per_api[1], per_api[2], per_api[3], per_api[4],
           per_type[0], per_type[1], per_type[2], M, L, rmodes, vf_nviolations);
    MPI_Finalize();
    return vf_nviolations ? 1 : 0;
}
