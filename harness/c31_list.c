/* C31: lists and dequeues keep their contents and order.
 * list.h / list_item.h / dequeue.h / fifo.h are header-only: the code under test is compiled into this harness from
 * the tree's headers.
 * Modes:
 *   seq    random operation sequences on an unsorted list, a sorted list and an item ring, each operation compared
 *          with a sequential model (array of element pointers) + full structural check (forward and backward links)
 *   hist   many short concurrent histories on one list with the locked operations (list / fifo / dequeue wrappers,
 *          sorted insertion, locked sort), each searched for a linearization (WGL) against a deque / sorted-sequence
 *          model; structure + conservation at quiescence
 *   stress long concurrent conservation / single-ownership run on a deque and on a sorted list */
#include "parsec/parsec_config.h"
#include "parsec/class/list.h"
#include "parsec/class/dequeue.h"
#include "parsec/class/fifo.h"
#include <limits.h>
#include "kit.h"

typedef struct { parsec_list_item_t super; int prio; int pad; int64_t id; volatile int owner; } elt_t;
#define OFF offsetof(elt_t, prio)

/* =================================================================== sequential mode */
#define SEQ_POOL 96
static elt_t spool[SEQ_POOL]; static elt_t *sfree[SEQ_POOL]; static int nsfree;
static parsec_list_t LU, LS;                    /* unsorted, sorted */
static elt_t *MU[SEQ_POOL], *MS[SEQ_POOL], *MR[SEQ_POOL]; static int nU, nS, nR;
static parsec_list_item_t *ring;                /* head of the item ring (NULL when empty) */
static int dir_sort = 0, dir_ring = 0;          /* observed directions: +1 non-decreasing, -1 non-increasing */
static long dir_sort_n[3], dir_ring_n[3];
static char seqtxt[2600]; static int seqp;
static const char *curop = "?";
static int seq_failed;

#define SAY(...) do { if (seqp < 2400) seqp += snprintf(seqtxt + seqp, sizeof seqtxt - seqp, __VA_ARGS__); } while (0)

static void seq_fail(const char *oracle, const char *fmt, ...) {
    char key[128], buf[600]; va_list ap; va_start(ap, fmt); vsnprintf(buf, sizeof buf, fmt, ap); va_end(ap);
    snprintf(key, sizeof key, "list:%s:%s", curop, oracle);
    vf_violation(key, "%s | sequence so far: %s", buf, seqtxt + (seqp > 380 ? seqp - 380 : 0));
    seq_failed = 1;
}

/* walk a list forward and backward and compare with the model */
static int check_list(parsec_list_t *l, elt_t **m, int n) {
    parsec_list_item_t *g = &l->ghost_element, *p = g, *it = (parsec_list_item_t *)g->list_next; int k = 0;
    while (it != g && k <= n) {
        if (k < n && (elt_t *)it != m[k]) { seq_fail("content", "position %d holds element %lld, model expects %lld", k, (long long)((elt_t *)it)->id, (long long)m[k]->id); return 0; }
        if ((parsec_list_item_t *)it->list_prev != p) { seq_fail("back-link", "element at position %d has a list_prev that is not its predecessor", k); return 0; }
        p = it; it = (parsec_list_item_t *)it->list_next; k++;
    }
    if (k != n || it != g) { seq_fail("content", "list has %s%d elements, model has %d", k > n ? "more than " : "", k > n ? n : k, n); return 0; }
    if ((parsec_list_item_t *)g->list_prev != p) { seq_fail("back-link", "the tail pointer does not designate the last element (%d elements)", n); return 0; }
    /* reverse iterator must give the reverse sequence */
    k = n; PARSEC_LIST_NOLOCK_REV_ITERATOR(l, ri, { k--; if (k < 0 || (elt_t *)ri != m[k]) { k = -100; break; } });
    if (k != 0) { seq_fail("back-link", "reverse traversal does not visit the model sequence backwards"); return 0; }
    if (parsec_list_nolock_is_empty(l) != (n == 0) || parsec_list_is_empty(l) != (n == 0)) { seq_fail("is_empty", "is_empty disagrees with %d elements", n); return 0; }
    return 1;
}
/* walk a ring; returns number of elements or -1 */
static int ring_to_array(parsec_list_item_t *r, elt_t **out, int max) {
    if (!r) return 0;
    int k = 0; parsec_list_item_t *it = r, *p = (parsec_list_item_t *)r->list_prev;
    do { if (k >= max) return -1; if ((parsec_list_item_t *)it->list_prev != p) return -2; out[k++] = (elt_t *)it; p = it; it = (parsec_list_item_t *)it->list_next; } while (it != r);
    return k;
}
static int monotone_dir(elt_t **m, int n) {   /* +1 non-decreasing, -1 non-increasing, 0 all equal, 2 neither */
    int up = 1, down = 1;
    for (int i = 1; i < n; i++) { if (m[i]->prio < m[i - 1]->prio) up = 0; if (m[i]->prio > m[i - 1]->prio) down = 0; }
    return (up && down) ? 0 : up ? 1 : down ? -1 : 2;
}
static int same_multiset(elt_t **a, elt_t **b, int n) {
    for (int i = 0; i < n; i++) { int ca = 0, cb = 0; for (int j = 0; j < n; j++) { ca += (a[j] == a[i]); cb += (b[j] == a[i]); } if (ca != 1 || cb != 1) return 0; }
    return 1;
}
static int gen_prio(vf_rng_t *r, int style) {
    static const int ext[] = {INT_MIN, INT_MIN + 1, -1, 0, 1, 2, INT_MAX - 1, INT_MAX};
    switch (style) {
    case 0: return (int)vf_randn(r, 4);
    case 1: return (int)vf_randn(r, 5) - 2;
    case 2: return (int)vf_randn(r, 7) - 3 + (vf_randn(r, 6) == 0 ? 100 : 0);
    case 3: return ext[vf_randn(r, 8)];
    default: return (int)(vf_rand(r) >> 40) - (1 << 23);
    }
}
static elt_t *snew(vf_rng_t *r, int style) { if (!nsfree) return NULL; elt_t *e = sfree[--nsfree]; e->prio = gen_prio(r, style); PARSEC_LIST_ITEM_SINGLETON(&e->super); return e; }
static void sdel(elt_t *e) { sfree[nsfree++] = e; }
static parsec_list_item_t *build_ring(vf_rng_t *r, int style, int k, elt_t **out, int *n) {
    parsec_list_item_t *rg = NULL; *n = 0;
    for (int j = 0; j < k; j++) { elt_t *e = snew(r, style); if (!e) break; out[(*n)++] = e; if (!rg) rg = &e->super; else parsec_list_item_ring_push(rg, &e->super); }
    return rg;
}
static void minsert(elt_t **m, int *n, int pos, elt_t *e) { memmove(m + pos + 1, m + pos, sizeof(*m) * (size_t)(*n - pos)); m[pos] = e; (*n)++; }
static void mremove(elt_t **m, int *n, int pos) { memmove(m + pos, m + pos + 1, sizeof(*m) * (size_t)(*n - pos - 1)); (*n)--; }
static int sorted_pos(elt_t **m, int n, int prio) { int p = 0; while (p < n && m[p]->prio >= prio) p++; return p; }   /* after existing >= */

static long seq_ops_by_kind[32]; static const char *seq_kind_name[32];
#define KIND(k, name) do { curop = name; seq_kind_name[k] = name; seq_ops_by_kind[k]++; } while (0)

static uint64_t one_sequence(vf_rng_t *r, int len, int *changed) {
    int style = (int[]){0, 0, 0, 1, 1, 2, 2, 3, 4, 4}[vf_randn(r, 10)];
    uint64_t sig = vf_mix(0x31, (uint64_t)style); seqp = 0; seqtxt[0] = 0; seq_failed = 0; *changed = 0;
    SAY("[prio-style %d] ", style);
    for (int step = 0; step < len && !seq_failed; step++) {
        uint32_t d = vf_randn(r, 100); int v = (int)vf_randn(r, 4);
        elt_t *tmp[8], *e; int tn; parsec_list_item_t *it;
        sig = vf_mix(sig, d * 4 + (uint32_t)v);
        if (d < 8) { KIND(0, "push_front"); if (!(e = snew(r, style))) continue; SAY("pushf(%d) ", e->prio);
            if (v == 0) parsec_list_push_front(&LU, &e->super); else if (v == 1) parsec_list_nolock_push_front(&LU, &e->super); else if (v == 2) parsec_dequeue_push_front(&LU, &e->super); else parsec_dequeue_nolock_push_front(&LU, &e->super);
            minsert(MU, &nU, 0, e); check_list(&LU, MU, nU); (*changed)++;
        } else if (d < 16) { KIND(1, "push_back"); if (!(e = snew(r, style))) continue; SAY("pushb(%d) ", e->prio);
            if (v == 0) parsec_list_push_back(&LU, &e->super); else if (v == 1) parsec_list_nolock_push_back(&LU, &e->super); else if (v == 2) parsec_fifo_push(&LU, &e->super); else parsec_dequeue_push_back(&LU, &e->super);
            minsert(MU, &nU, nU, e); check_list(&LU, MU, nU); (*changed)++;
        } else if (d < 22) { KIND(2, "pop_front"); SAY("popf ");
            it = v == 0 ? parsec_list_pop_front(&LU) : v == 1 ? parsec_list_nolock_pop_front(&LU) : v == 2 ? parsec_list_try_pop_front(&LU) : parsec_fifo_pop(&LU);
            if ((elt_t *)it != (nU ? MU[0] : NULL)) { seq_fail("result", "returned %s, model front is %s", it ? "an element" : "NULL", nU ? "another element" : "empty"); break; }
            if (nU) { sdel(MU[0]); mremove(MU, &nU, 0); (*changed)++; } check_list(&LU, MU, nU);
        } else if (d < 28) { KIND(3, "pop_back"); SAY("popb ");
            it = v == 0 ? parsec_list_pop_back(&LU) : v == 1 ? parsec_list_nolock_pop_back(&LU) : v == 2 ? parsec_list_try_pop_back(&LU) : parsec_dequeue_pop_back(&LU);
            if ((elt_t *)it != (nU ? MU[nU - 1] : NULL)) { seq_fail("result", "returned %s, model back is %s", it ? "an element" : "NULL", nU ? "another element" : "empty"); break; }
            if (nU) { sdel(MU[nU - 1]); mremove(MU, &nU, nU - 1); (*changed)++; } check_list(&LU, MU, nU);
        } else if (d < 33) { KIND(4, "chain_front"); it = build_ring(r, style, 1 + (int)vf_randn(r, 4), tmp, &tn); if (!it) continue; SAY("chainf(%d) ", tn);
            if (v & 1) parsec_list_chain_front(&LU, it); else parsec_list_nolock_chain_front(&LU, it);
            for (int j = tn - 1; j >= 0; j--) minsert(MU, &nU, 0, tmp[j]); check_list(&LU, MU, nU); (*changed)++;
        } else if (d < 38) { KIND(5, "chain_back"); it = build_ring(r, style, 1 + (int)vf_randn(r, 4), tmp, &tn); if (!it) continue; SAY("chainb(%d) ", tn);
            if (v == 0) parsec_list_chain_back(&LU, it); else if (v == 1) parsec_list_nolock_chain_back(&LU, it); else if (v == 2) parsec_fifo_chain(&LU, it); else parsec_dequeue_chain_back(&LU, it);
            for (int j = 0; j < tn; j++) minsert(MU, &nU, nU, tmp[j]); check_list(&LU, MU, nU); (*changed)++;
        } else if (d < 41) { KIND(6, "unchain"); SAY("unchain ");
            it = (v & 1) ? parsec_list_unchain(&LU) : parsec_list_nolock_unchain(&LU);
            elt_t *got[SEQ_POOL]; int gn = ring_to_array(it, got, SEQ_POOL);
            if (gn != nU) { seq_fail("content", "returned ring has %d elements (or broken links), model has %d", gn, nU); break; }
            for (int j = 0; j < nU; j++) if (got[j] != MU[j]) { seq_fail("content", "ring position %d differs from the model", j); break; }
            if (seq_failed) break;
            int keep = nU; nU = 0; check_list(&LU, MU, 0);
            if (keep && (v & 2)) { parsec_list_nolock_chain_back(&LU, it); nU = keep; check_list(&LU, MU, nU); }   /* put it back */
            else for (int j = 0; j < keep; j++) sdel(MU[j]);
            (*changed)++;
        } else if (d < 46) { KIND(7, "remove"); if (!nU) continue; int pos = (int)vf_randn(r, (uint32_t)nU); SAY("remove@%d ", pos);
            it = parsec_list_nolock_remove(&LU, &MU[pos]->super);
            if (it != (pos ? &MU[pos - 1]->super : &LU.ghost_element)) { seq_fail("result", "did not return the predecessor of the removed element (position %d)", pos); break; }
            sdel(MU[pos]); mremove(MU, &nU, pos); check_list(&LU, MU, nU); (*changed)++;
        } else if (d < 51) { KIND(8, "add_before"); if (!(e = snew(r, style))) continue; int pos = (int)vf_randn(r, (uint32_t)nU + 1); SAY("add_before@%d ", pos);
            parsec_list_nolock_add_before(&LU, pos < nU ? &MU[pos]->super : &LU.ghost_element, &e->super);
            minsert(MU, &nU, pos, e); check_list(&LU, MU, nU); (*changed)++;
        } else if (d < 56) { KIND(9, "add_after"); if (!(e = snew(r, style))) continue; int pos = (int)vf_randn(r, (uint32_t)nU + 1) - 1; SAY("add_after@%d ", pos);
            if (v & 1) parsec_list_add_after(&LU, pos >= 0 ? &MU[pos]->super : &LU.ghost_element, &e->super); else parsec_list_nolock_add_after(&LU, pos >= 0 ? &MU[pos]->super : &LU.ghost_element, &e->super);
            minsert(MU, &nU, pos + 1, e); check_list(&LU, MU, nU); (*changed)++;
        } else if (d < 58) { KIND(10, "contains"); SAY("contains ");
            if (nU) { int pos = (int)vf_randn(r, (uint32_t)nU); if (!parsec_list_nolock_contains(&LU, &MU[pos]->super)) { seq_fail("result", "element at position %d reported absent", pos); break; } }
            if (nS && parsec_list_nolock_contains(&LU, &MS[0]->super)) { seq_fail("result", "element of another list reported present"); break; }
        } else if (d < 64) { KIND(11, "sort"); SAY("sort(n=%d) ", nU);
            elt_t *before[SEQ_POOL]; memcpy(before, MU, sizeof(*MU) * (size_t)nU);
            if (v & 1) parsec_list_sort(&LU, OFF); else parsec_list_nolock_sort(&LU, OFF);
            /* read back (bounded), then judge */
            int k = 0; parsec_list_item_t *g = &LU.ghost_element; for (it = (parsec_list_item_t *)g->list_next; it != g && k < SEQ_POOL; it = (parsec_list_item_t *)it->list_next) MU[k++] = (elt_t *)it;
            if (k != nU || it != g) { seq_fail("permutation", "list has %d elements after sorting %d", k, nU); break; }
            if (!same_multiset(before, MU, nU)) { seq_fail("permutation", "the sorted list is not a permutation of the %d input elements", nU); break; }
            int dr = monotone_dir(MU, nU);
            if (dr == 2) { seq_fail("not-ordered", "result of sorting %d elements is not monotone in priority", nU); break; }
            if (dr) { dir_sort_n[dr + 1]++; if (!dir_sort) dir_sort = dr; else if (dir_sort != dr) { seq_fail("direction-inconsistent", "this input was sorted %s, earlier inputs %s", dr > 0 ? "ascending" : "descending", dir_sort > 0 ? "ascending" : "descending"); break; } }
            check_list(&LU, MU, nU); (*changed)++;
        } else if (d < 76) { KIND(12, "push_sorted"); if (!(e = snew(r, style))) continue; SAY("push_sorted(%d) ", e->prio);
            if (v & 1) parsec_list_push_sorted(&LS, &e->super, OFF); else parsec_list_nolock_push_sorted(&LS, &e->super, OFF);
            /* the statement fixes the position: non-increasing and after the existing elements of equal priority */
            int k = 0; parsec_list_item_t *g = &LS.ghost_element; elt_t *got[SEQ_POOL]; for (it = (parsec_list_item_t *)g->list_next; it != g && k < SEQ_POOL; it = (parsec_list_item_t *)it->list_next) got[k++] = (elt_t *)it;
            int pos = sorted_pos(MS, nS, e->prio); minsert(MS, &nS, pos, e);
            if (k == nS && same_multiset(got, MS, nS)) {
                int gp = 0; while (gp < k && got[gp] != e) gp++;
                if (monotone_dir(got, k) == 2 || monotone_dir(got, k) == 1) { seq_fail("not-non-increasing", "list is not in non-increasing priority order after inserting priority %d", e->prio); break; }
                if (gp != pos) { seq_fail("not-after-equal", "element of priority %d was placed at position %d, before %d existing element(s) of equal priority (expected position %d)", e->prio, gp, pos - gp, pos); break; }
            }
            check_list(&LS, MS, nS); (*changed)++;
        } else if (d < 86) { KIND(13, "chain_sorted"); it = build_ring(r, style, 1 + (int)vf_randn(r, 5), tmp, &tn); if (!it) continue;
            SAY("chain_sorted("); for (int j = 0; j < tn; j++) SAY("%d%s", tmp[j]->prio, j + 1 < tn ? "," : ") ");
            elt_t *old[SEQ_POOL]; int on = nS; memcpy(old, MS, sizeof(*MS) * (size_t)nS);
            if (v & 1) parsec_list_chain_sorted(&LS, it, OFF); else parsec_list_nolock_chain_sorted(&LS, it, OFF);
            int k = 0; parsec_list_item_t *g = &LS.ghost_element; for (it = (parsec_list_item_t *)g->list_next; it != g && k < SEQ_POOL; it = (parsec_list_item_t *)it->list_next) MS[k++] = (elt_t *)it;
            nS = k;
            if (k != on + tn || it != g) { seq_fail("content", "list has %d elements after chaining %d into %d", k, tn, on); break; }
            { elt_t *all[SEQ_POOL]; memcpy(all, old, sizeof(*old) * (size_t)on); memcpy(all + on, tmp, sizeof(*tmp) * (size_t)tn); if (!same_multiset(all, MS, k)) { seq_fail("content", "result is not the union of the list and the chained ring"); break; } }
            int dr = monotone_dir(MS, nS);
            if (dr == 2 || dr == 1) { seq_fail("not-non-increasing", "list is not in non-increasing priority order after chain_sorted"); break; }
            /* pre-existing elements keep their order; each new element sits after all pre-existing ones of equal priority */
            { int oi = 0, bad = 0; for (int j = 0; j < k && !bad; j++) { int isnew = 0; for (int q = 0; q < tn; q++) isnew |= (tmp[q] == MS[j]);
                  if (!isnew) { if (MS[j] != old[oi++]) bad = 1; } else { for (int q = j + 1; q < k; q++) { int qn = 0; for (int w = 0; w < tn; w++) qn |= (tmp[w] == MS[q]); if (!qn && MS[q]->prio == MS[j]->prio) bad = 2; } } }
              if (bad == 1) { seq_fail("existing-reordered", "pre-existing elements changed their relative order"); break; }
              if (bad == 2) { seq_fail("not-after-equal", "a chained element was placed before a pre-existing element of equal priority"); break; } }
            check_list(&LS, MS, nS); (*changed)++;
        } else if (d < 90) { KIND(14, "sorted_pop"); SAY("spop%d ", v);
            if (!nS) continue;
            if (v == 0) { it = parsec_list_pop_front(&LS); if ((elt_t *)it != MS[0]) { seq_fail("result", "pop_front of the sorted list returned the wrong element"); break; } sdel(MS[0]); mremove(MS, &nS, 0); }
            else if (v == 1) { it = parsec_list_pop_back(&LS); if ((elt_t *)it != MS[nS - 1]) { seq_fail("result", "pop_back of the sorted list returned the wrong element"); break; } sdel(MS[nS - 1]); mremove(MS, &nS, nS - 1); }
            else { int pos = (int)vf_randn(r, (uint32_t)nS); parsec_list_nolock_remove(&LS, &MS[pos]->super); sdel(MS[pos]); mremove(MS, &nS, pos); }
            check_list(&LS, MS, nS); (*changed)++;
        } else if (d < 97) { KIND(15, "ring_push_sorted"); if (!(e = snew(r, style))) continue; SAY("ring_push_sorted(%d) ", e->prio);
            elt_t *old[SEQ_POOL]; int on = nR; memcpy(old, MR, sizeof(*MR) * (size_t)nR);
            ring = parsec_list_item_ring_push_sorted(ring, &e->super, OFF);
            int k = ring_to_array(ring, MR, SEQ_POOL);
            if (k != on + 1) { seq_fail("content", "ring has %d elements (or broken links) after inserting into %d", k, on); break; }
            nR = k; old[on] = e;
            if (!same_multiset(old, MR, k)) { seq_fail("content", "ring is not the old ring plus the new element"); break; }
            int dr = monotone_dir(MR, nR);
            if (dr == 2) { seq_fail("not-ordered", "ring is not monotone in priority from its head after inserting priority %d", e->prio); break; }
            if (dr) { dir_ring_n[dr + 1]++; if (!dir_ring) dir_ring = dr; else if (dir_ring != dr) { seq_fail("direction-inconsistent", "ring ordered %s now, %s before", dr > 0 ? "ascending" : "descending", dir_ring > 0 ? "ascending" : "descending"); break; } }
            (*changed)++;
        } else { KIND(16, "ring_chop"); if (!nR) continue; int pos = (int)vf_randn(r, (uint32_t)nR); SAY("ring_chop@%d ", pos);
            parsec_list_item_t *rest = parsec_list_item_ring_chop(&MR[pos]->super);
            if (nR == 1) { if (rest) { seq_fail("result", "chopping the only element did not return NULL"); break; } ring = NULL; }
            else { int member = 0; for (int j = 0; j < nR; j++) if (j != pos && rest == &MR[j]->super) member = 1;      /* "the rest of the ring": any remaining element */
                   if (!member) { seq_fail("result", "chop did not return an element of the remaining ring"); break; }
                   if (pos == 0) ring = &MR[1]->super; }
            sdel(MR[pos]); mremove(MR, &nR, pos);
            elt_t *got[SEQ_POOL]; int k = ring_to_array(ring, got, SEQ_POOL);
            if (k != nR) { seq_fail("content", "ring has %d elements after chop, model %d", k, nR); break; }
            for (int j = 0; j < k; j++) if (got[j] != MR[j]) { seq_fail("content", "ring order changed by chop"); break; }
            (*changed)++;
        }
    }
    if (seq_failed) return sig;
    /* empty everything for the next sequence */
    parsec_list_item_t *it;
    while ((it = parsec_list_nolock_pop_front(&LU))) sdel((elt_t *)it);
    while ((it = parsec_list_nolock_pop_front(&LS))) sdel((elt_t *)it);
    for (int j = 0; j < nR; j++) sdel(MR[j]);
    nU = nS = nR = 0; ring = NULL;
    if (!seq_failed && nsfree != SEQ_POOL) { curop = "sequence"; seq_fail("conservation", "%d of %d elements accounted for at the end of the sequence", nsfree, SEQ_POOL); }
    return sig;
}

static uint64_t *sigset; static size_t sigcap, nsig;
static int sig_add(uint64_t s) {
    if (!s) s = 1;
    size_t i = (size_t)(s % sigcap);
    while (sigset[i]) { if (sigset[i] == s) return 0; i = (i + 1) % sigcap; }
    if (nsig * 2 < sigcap) { sigset[i] = s; nsig++; }
    return 1;
}

static int run_seq(int argc, char **argv) {
    long nseq = vf_arg_ll(argc, argv, "--sequences", 1000); uint64_t seed = (uint64_t)vf_arg_ll(argc, argv, "--seed", 1);
    int maxlen = (int)vf_arg_ll(argc, argv, "--len", 60);
    vf_rng_t r; vf_rng_seed(&r, seed, 31);
    sigcap = 1 << 21; sigset = calloc(sigcap, sizeof(uint64_t));
    for (int i = 0; i < SEQ_POOL; i++) { PARSEC_OBJ_CONSTRUCT(&spool[i].super, parsec_list_item_t); spool[i].id = i; sfree[nsfree++] = &spool[i]; }
    PARSEC_OBJ_CONSTRUCT(&LU, parsec_list_t); PARSEC_OBJ_CONSTRUCT(&LS, parsec_list_t);
    long done = 0, nontrivial = 0, distinct = 0, samples = 0, ops = 0;
    {   /* one fixed micro-sequence with the runtime's own extreme priority (SET_HIGHEST_PRIORITY = INT_MAX) at head and tail */
        curop = "push_sorted"; seqp = 0; SAY("[fixed] push_sorted(INT_MAX) x3 ");
        for (int k = 0; k < 3; k++) { elt_t *e = sfree[--nsfree]; e->prio = INT_MAX; PARSEC_LIST_ITEM_SINGLETON(&e->super); parsec_list_nolock_push_sorted(&LS, &e->super, OFF); minsert(MS, &nS, nS, e); check_list(&LS, MS, nS); }
        parsec_list_item_t *it; while ((it = parsec_list_nolock_pop_front(&LS))) sdel((elt_t *)it); nS = 0;
    }
    for (long s = 0; s < nseq && !vf_nviolations; s++) {
        int len = 8 + (int)vf_randn(&r, (uint32_t)maxlen), changed;
        uint64_t sig = one_sequence(&r, len, &changed);
        done++; ops += len;
        if (changed >= 3) { nontrivial++; if (sig_add(sig)) distinct++; }
        if (samples < 3 && changed >= 10 && len < 30) { samples++; for (char *p = seqtxt; *p; p++) if (*p == '"' || *p == '\\') *p = ' '; vf_out("{\"type\":\"sequence\",\"ops\":\"%s\"}", seqtxt); }
        if ((s & 63) == 0) VF_TICK();
    }
    char kinds[1200]; int p = 0; for (int k = 0; k < 17; k++) if (seq_kind_name[k]) p += snprintf(kinds + p, sizeof kinds - p, "%s\"%s\":%ld", p ? "," : "", seq_kind_name[k], seq_ops_by_kind[k]);
    vf_out("{\"type\":\"summary\",\"mode\":\"seq\",\"sequences\":%ld,\"nontrivial\":%ld,\"distinct\":%ld,\"ops\":%ld,\"sort_ascending\":%ld,\"sort_descending\":%ld,\"ring_ascending\":%ld,\"ring_descending\":%ld,\"by_kind\":{%s}}",
           done, nontrivial, distinct, ops, dir_sort_n[2], dir_sort_n[0], dir_ring_n[2], dir_ring_n[0], kinds);
    return vf_nviolations ? 1 : 0;
}

/* =================================================================== concurrent histories */
#define MAXT 8
#define MAXOPS 40
#define MAXCH 3
#define MAXID 160
#define RBCAP 640
enum { O_PUSHF, O_PUSHB, O_CHAINF, O_CHAINB, O_POPF, O_POPB, O_TRYF, O_TRYB, O_UNCHAIN, O_EMPTY, O_PUSHS, O_CHAINS, O_SORT };
static const char *opname[] = {"push_front", "push_back", "chain_front", "chain_back", "pop_front", "pop_back", "try_pop_front", "try_pop_back", "unchain", "is_empty", "push_sorted", "chain_sorted", "sort"};
enum { H_LIST, H_FIFO, H_DEQUEUE, H_SORTED, H_SORT, H_NTYPES };
static const char *htname[] = {"list", "fifo", "dequeue", "sorted", "sort"};
typedef struct { int tid, type, n; int16_t ids[MAXCH]; int res; int roff, rn; uint64_t inv, resp; } op_t;

static parsec_list_t CL;
static elt_t *pool; static int npool;
static int prio_of[MAXID];
static int sort_dir_cal = 1;

typedef struct { uint64_t mask, h1, h2; uint64_t gen; } memo_t;
static memo_t *memo; static size_t memo_cap, memo_n; static uint64_t memo_gen = 1;
static long wgl_nodes, wgl_budget;
static op_t *H; static int HN;
static int16_t *RB;                 /* result buffer for unchain results */
static int relax_sort;

static int memo_seen(uint64_t mask, uint64_t h1, uint64_t h2) {
    size_t i = (size_t)(vf_mix(mask, h1) % memo_cap);
    for (;;) {
        if (memo[i].gen != memo_gen) { if (memo_n * 2 > memo_cap) return 0; memo[i].mask = mask; memo[i].h1 = h1; memo[i].h2 = h2 | 1; memo[i].gen = memo_gen; memo_n++; return 0; }
        if (memo[i].mask == mask && memo[i].h1 == h1 && memo[i].h2 == (h2 | 1)) return 1;
        i = (i + 1) % memo_cap;
    }
}
static int overlaps_any(int o) { for (int p = 0; p < HN; p++) if (p != o && H[p].inv < H[o].resp && H[o].inv < H[p].resp) return 1; return 0; }
static int overlaps_sort(int o) { for (int p = 0; p < HN; p++) if (p != o && H[p].type == O_SORT && H[p].inv < H[o].resp && H[o].inv < H[p].resp) return 1; return 0; }
static int sins(int16_t *s, int n, int16_t id) { int p = 0; while (p < n && prio_of[s[p]] >= prio_of[id]) p++; memmove(s + p + 1, s + p, sizeof(*s) * (size_t)(n - p)); s[p] = id; return n + 1; }
static int cmp_prio_up(const void *a, const void *b) { int x = prio_of[*(const int16_t *)a], y = prio_of[*(const int16_t *)b]; return x < y ? -1 : x > y; }

/* apply op i to state (s,n) -> (o,*on); 0 when the recorded result is impossible in this state */
static int apply(int i, const int16_t *s, int n, int16_t *o, int *on) {
    op_t *p = &H[i]; memcpy(o, s, sizeof(*s) * (size_t)n); *on = n;
    switch (p->type) {
    case O_PUSHF: memmove(o + 1, o, sizeof(*o) * (size_t)n); o[0] = p->ids[0]; *on = n + 1; return 1;
    case O_PUSHB: o[n] = p->ids[0]; *on = n + 1; return 1;
    case O_CHAINF: memmove(o + p->n, o, sizeof(*o) * (size_t)n); for (int k = 0; k < p->n; k++) o[k] = p->ids[k]; *on = n + p->n; return 1;
    case O_CHAINB: for (int k = 0; k < p->n; k++) o[n + k] = p->ids[k]; *on = n + p->n; return 1;
    case O_POPF: case O_TRYF:
        if (p->res < 0) return n == 0 || (p->type == O_TRYF && overlaps_any(i)) || (relax_sort && overlaps_sort(i));
        if (!n || s[0] != p->res) return 0; memmove(o, o + 1, sizeof(*o) * (size_t)(n - 1)); *on = n - 1; return 1;
    case O_POPB: case O_TRYB:
        if (p->res < 0) return n == 0 || (p->type == O_TRYB && overlaps_any(i)) || (relax_sort && overlaps_sort(i));
        if (!n || s[n - 1] != p->res) return 0; *on = n - 1; return 1;
    case O_UNCHAIN: if (p->rn != n) return 0; for (int k = 0; k < n; k++) if (RB[p->roff + k] != s[k]) return 0; *on = 0; return 1;
    case O_EMPTY: return (n == 0) == (p->res != 0);
    case O_PUSHS: *on = sins(o, n, p->ids[0]); return 1;
    case O_CHAINS: { int m = n; for (int k = 0; k < p->n; k++) m = sins(o, m, p->ids[k]); *on = m; return 1; }
    case O_SORT: qsort(o, (size_t)n, sizeof(*o), cmp_prio_up); if (sort_dir_cal < 0) for (int a = 0, b = n - 1; a < b; a++, b--) { int16_t t = o[a]; o[a] = o[b]; o[b] = t; } return 1;
    }
    return 0;
}
static int wgl(uint64_t mask, const int16_t *s, int n) {
    if (mask == (HN == 64 ? ~0ULL : ((1ULL << HN) - 1))) return 1;
    if (++wgl_nodes > wgl_budget) return -1;
    uint64_t a = 0x1234567, b = 0xabcdef01; for (int i = 0; i < n; i++) { a = vf_mix(a, (uint64_t)s[i]); b = vf_mix(b ^ 0x5555, (uint64_t)s[i] * 31 + 7); }
    if (memo_seen(mask, a, b)) return 0;
    uint64_t minresp = ~0ULL;
    for (int i = 0; i < HN; i++) if (!(mask >> i & 1) && H[i].resp < minresp) minresp = H[i].resp;
    for (int i = 0; i < HN; i++) {
        if ((mask >> i & 1) || H[i].inv > minresp) continue;
        int16_t ns[MAXID]; int nn;
        if (apply(i, s, n, ns, &nn)) { int r = wgl(mask | (1ULL << i), ns, nn); if (r != 0) return r; }
    }
    return 0;
}

typedef struct {
    int nthreads, ops_per_thread, htype; uint64_t seed;
    vf_spinbar_t bar; volatile int stop; volatile long hist_no;
    op_t log[MAXT][MAXOPS]; int nlog[MAXT];
    int16_t rbuf[MAXT][RBCAP]; int nrbuf[MAXT];
    volatile int next_id;
    elt_t *mine[MAXT][MAXID]; int nmine[MAXT];
} hist_t;
static hist_t G;

static inline int16_t fresh(elt_t *e, vf_rng_t *rng, int htype, int avoid1, int avoid2) {
    int id = __sync_fetch_and_add(&G.next_id, 1);
    int pr;
    if (htype == H_SORT) pr = id * 7919 % 1009 + id * 1009;                     /* pairwise distinct */
    else if (htype == H_SORTED) { do pr = (int)vf_randn(rng, 5) - 2; while (pr == avoid1 || pr == avoid2); }
    else pr = (int)vf_randn(rng, 4);
    e->id = id; e->prio = pr; prio_of[id] = pr; return (int16_t)id;
}

static void hist_worker(int tid, int nt, void *arg) {
    (void)arg; (void)nt; vf_rng_t rng;
    for (;;) {
        vf_spinbar_wait(&G.bar);
        if (G.stop) return;
        vf_rng_seed(&rng, G.seed + (uint64_t)G.hist_no * 1315423911ULL, tid + 1);
        int n = 0, ht = G.htype; G.nrbuf[tid] = 0;
        for (int k = 0; k < G.ops_per_thread; k++) {
            op_t *o = &G.log[tid][n]; uint32_t t = vf_randn(&rng, 100); int ty;
            o->tid = tid; o->n = 0; o->res = -1; o->rn = 0; o->roff = 0;
            if (ht == H_FIFO) ty = t < 40 ? O_PUSHB : t < 50 ? O_CHAINB : t < 80 ? O_POPF : t < 95 ? O_TRYF : O_EMPTY;
            else if (ht == H_SORTED) ty = t < 40 ? O_PUSHS : t < 52 ? O_CHAINS : t < 70 ? O_POPF : t < 85 ? O_POPB : t < 93 ? O_TRYF : O_TRYB;
            else if (ht == H_SORT) ty = t < 25 ? O_PUSHF : t < 50 ? O_PUSHB : t < 65 ? O_SORT : t < 80 ? O_POPF : t < 92 ? O_POPB : O_TRYF;
            else ty = t < 20 ? O_PUSHF : t < 40 ? O_PUSHB : t < 47 ? O_CHAINF : t < 54 ? O_CHAINB : t < 66 ? O_POPF : t < 78 ? O_POPB : t < 85 ? O_TRYF : t < 92 ? O_TRYB : t < 96 ? O_UNCHAIN : O_EMPTY;
            int need = (ty == O_CHAINF || ty == O_CHAINB || ty == O_CHAINS) ? 2 + (G.nmine[tid] >= 3 && vf_randn(&rng, 2)) : (ty == O_PUSHF || ty == O_PUSHB || ty == O_PUSHS) ? 1 : 0;
            if (ty == O_UNCHAIN && G.nrbuf[tid] + npool > RBCAP) ty = O_POPF;
            if (need > G.nmine[tid]) { ty = (ht == H_FIFO) ? O_POPF : (t & 1) ? O_POPF : O_POPB; need = 0; }
            o->type = ty;
            parsec_list_item_t *it = NULL, *rg = NULL;
            if (need) { o->n = need; for (int j = 0; j < need; j++) { elt_t *e = G.mine[tid][--G.nmine[tid]]; o->ids[j] = fresh(e, &rng, ht, j > 0 ? prio_of[o->ids[0]] : INT_MIN, j > 1 ? prio_of[o->ids[1]] : INT_MIN);
                    PARSEC_LIST_ITEM_SINGLETON(&e->super); if (!rg) rg = &e->super; else parsec_list_item_ring_push(rg, &e->super); } }
            int dq = (ht == H_DEQUEUE), ff = (ht == H_FIFO);
            o->inv = vf_stamp();
            switch (ty) {
            case O_PUSHF: if (dq) parsec_dequeue_push_front(&CL, rg); else parsec_list_push_front(&CL, rg); break;
            case O_PUSHB: if (ff) parsec_fifo_push(&CL, rg); else if (dq) parsec_dequeue_push_back(&CL, rg); else parsec_list_push_back(&CL, rg); break;
            case O_CHAINF: if (dq) parsec_dequeue_chain_front(&CL, rg); else parsec_list_chain_front(&CL, rg); break;
            case O_CHAINB: if (ff) parsec_fifo_chain(&CL, rg); else if (dq) parsec_dequeue_chain_back(&CL, rg); else parsec_list_chain_back(&CL, rg); break;
            case O_POPF: it = ff ? parsec_fifo_pop(&CL) : dq ? parsec_dequeue_pop_front(&CL) : parsec_list_pop_front(&CL); break;
            case O_POPB: it = dq ? parsec_dequeue_pop_back(&CL) : parsec_list_pop_back(&CL); break;
            case O_TRYF: it = ff ? parsec_fifo_try_pop(&CL) : dq ? parsec_dequeue_try_pop_front(&CL) : parsec_list_try_pop_front(&CL); break;
            case O_TRYB: it = dq ? parsec_dequeue_try_pop_back(&CL) : parsec_list_try_pop_back(&CL); break;
            case O_UNCHAIN: it = parsec_list_unchain(&CL); break;
            case O_EMPTY: o->res = ff ? parsec_fifo_is_empty(&CL) : dq ? parsec_dequeue_is_empty(&CL) : parsec_list_is_empty(&CL); break;
            case O_PUSHS: parsec_list_push_sorted(&CL, rg, OFF); break;
            case O_CHAINS: parsec_list_chain_sorted(&CL, rg, OFF); break;
            case O_SORT: parsec_list_sort(&CL, OFF); break;
            }
            if (ty == O_UNCHAIN) {                       /* we own the whole ring now */
                o->roff = G.nrbuf[tid]; int c = 0;
                if (it) { parsec_list_item_t *w = it; do { G.rbuf[tid][G.nrbuf[tid]++] = (int16_t)((elt_t *)w)->id; c++; w = (parsec_list_item_t *)w->list_next; } while (w != it && c < MAXID); }
                o->rn = c; o->resp = vf_stamp();
                if (it) { parsec_list_item_t *w = it; for (int j = 0; j < c; j++) { parsec_list_item_t *nx = (parsec_list_item_t *)w->list_next; G.mine[tid][G.nmine[tid]++] = (elt_t *)w; w = nx; } }
            } else {
                if (it) o->res = (int)((elt_t *)it)->id;
                o->resp = vf_stamp();
                if (it) G.mine[tid][G.nmine[tid]++] = (elt_t *)it;
            }
            n++; VF_TICK();
        }
        G.nlog[tid] = n;
        vf_spinbar_wait(&G.bar);
    }
}

static void print_history(const char *why, const char *tname) {
    char buf[4096]; int p = 0;
    for (int i = 0; i < HN && p < 3800; i++) {
        p += snprintf(buf + p, sizeof buf - p, "[t%d %s", H[i].tid, opname[H[i].type]);
        for (int k = 0; k < H[i].n; k++) p += snprintf(buf + p, sizeof buf - p, " %d(p%d)", H[i].ids[k], prio_of[H[i].ids[k]]);
        if (H[i].type == O_UNCHAIN) { p += snprintf(buf + p, sizeof buf - p, "->("); for (int k = 0; k < H[i].rn && p < 3800; k++) p += snprintf(buf + p, sizeof buf - p, "%d ", RB[H[i].roff + k]); p += snprintf(buf + p, sizeof buf - p, ")"); }
        else if (H[i].type >= O_POPF && H[i].type <= O_EMPTY) p += snprintf(buf + p, sizeof buf - p, "->%d", H[i].res);
        p += snprintf(buf + p, sizeof buf - p, " @%llu-%llu] ", (unsigned long long)H[i].inv, (unsigned long long)H[i].resp);
    }
    vf_out("{\"type\":\"history\",\"why\":\"%s\",\"kind\":\"%s\",\"ops\":\"%s\"}", why, tname, buf);
}
static int cmp_inv(const void *a, const void *b) { uint64_t x = ((const op_t *)a)->inv, y = ((const op_t *)b)->inv; return x < y ? -1 : x > y; }

static int run_hist(int argc, char **argv) {
    long nhist = vf_arg_ll(argc, argv, "--histories", 1000);
    G.nthreads = (int)vf_arg_ll(argc, argv, "--threads", 4); if (G.nthreads > MAXT) G.nthreads = MAXT;
    G.ops_per_thread = (int)vf_arg_ll(argc, argv, "--ops", 8);
    G.seed = (uint64_t)vf_arg_ll(argc, argv, "--seed", 1);
    wgl_budget = vf_arg_ll(argc, argv, "--budget", 2000000);
    const char *types = vf_arg(argc, argv, "--types", "list,fifo,dequeue,sorted,sort");
    int sortw = (int)vf_arg_ll(argc, argv, "--sort-weight", 10);       /* percent of histories of kind "sort" when enabled */
    int enabled[H_NTYPES]; int nen = 0; memset(enabled, 0, sizeof enabled);
    { char tb[128]; strncpy(tb, types, 127); tb[127] = 0; for (char *t = strtok(tb, ","); t; t = strtok(NULL, ",")) for (int k = 0; k < H_NTYPES; k++) if (!strcmp(t, htname[k]) && !enabled[k]) { enabled[k] = 1; nen++; } }
    if (!nen) return 2;
    if (G.nthreads * G.ops_per_thread > 36) G.ops_per_thread = 36 / G.nthreads;
    if (G.ops_per_thread > MAXOPS) G.ops_per_thread = MAXOPS;
    int per = 10; npool = per * G.nthreads;
    if (posix_memalign((void **)&pool, 128, sizeof(elt_t) * (size_t)npool)) return 2;
    memset(pool, 0, sizeof(elt_t) * (size_t)npool);
    for (int i = 0; i < npool; i++) { PARSEC_OBJ_CONSTRUCT(&pool[i].super, parsec_list_item_t); G.mine[i % G.nthreads][G.nmine[i % G.nthreads]++] = &pool[i]; }
    PARSEC_OBJ_CONSTRUCT(&CL, parsec_list_t);
    /* calibrate the direction of sort on one sequential input (the statement says "ordered", not which way) */
    { elt_t *a = &pool[0], *b = &pool[1], *c = &pool[2]; a->prio = 2; b->prio = 1; c->prio = 3;
      parsec_list_push_back(&CL, &a->super); parsec_list_push_back(&CL, &b->super); parsec_list_push_back(&CL, &c->super); parsec_list_sort(&CL, OFF);
      elt_t *f = (elt_t *)parsec_list_pop_front(&CL); sort_dir_cal = (f->prio == 1) ? 1 : -1; parsec_list_pop_front(&CL); parsec_list_pop_front(&CL); }
    memo_cap = 1 << 20; memo = calloc(memo_cap, sizeof(memo_t));
    sigcap = 1 << 21; sigset = calloc(sigcap, sizeof(uint64_t));
    static op_t hist[64]; static int16_t rb[MAXT * RBCAP + MAXID]; H = hist; RB = rb;
    vf_spinbar_init(&G.bar, G.nthreads + 1);
    pthread_t th[MAXT]; vf_team_ctx_t cx[MAXT]; pthread_barrier_t pb; pthread_barrier_init(&pb, NULL, (unsigned)G.nthreads);
    for (int i = 0; i < G.nthreads; i++) { cx[i] = (vf_team_ctx_t){hist_worker, NULL, i, G.nthreads, &pb}; pthread_create(&th[i], NULL, vf_team_tramp, &cx[i]); }
    long lin = 0, notlin = 0, incon = 0, overlapped = 0, distinct = 0, totops = 0, maxnodes = 0, trynull = 0, samples = 0, popnull_sort = 0;
    long by_type[H_NTYPES] = {0};
    int full_ops = G.ops_per_thread; vf_rng_t mr; vf_rng_seed(&mr, G.seed, 999);
    for (long h = 0; h < nhist && !vf_nviolations; h++) {
        G.hist_no = h; G.next_id = 0;
        G.ops_per_thread = 2 + (int)vf_randn(&mr, (uint32_t)full_ops - 1);
        { int t; do { t = (int)vf_randn(&mr, H_NTYPES); if (t == H_SORT && nen > 1 && (int)vf_randn(&mr, 100) >= sortw * nen) t = -1; } while (t < 0 || !enabled[t]); G.htype = t; }
        by_type[G.htype]++;
        vf_spinbar_wait(&G.bar); vf_spinbar_wait(&G.bar);
        HN = 0; int nrb = 0;
        for (int t = 0; t < G.nthreads; t++) { for (int k = 0; k < G.nlog[t]; k++) { hist[HN] = G.log[t][k]; if (hist[HN].type == O_UNCHAIN) { memcpy(rb + nrb, G.rbuf[t] + hist[HN].roff, sizeof(int16_t) * (size_t)hist[HN].rn); hist[HN].roff = nrb; nrb += hist[HN].rn; } HN++; } }
        /* quiescent: structure check, then drain with one unchain recorded after everything else */
        {
            parsec_list_item_t *g = &CL.ghost_element, *p = g, *it = (parsec_list_item_t *)g->list_next; int k = 0, bad = 0;
            while (it != g && k <= npool) { if ((parsec_list_item_t *)it->list_prev != p) bad = 1; p = it; it = (parsec_list_item_t *)it->list_next; k++; }
            if (k > npool) vf_violation("list:quiescent:structure", "%s history %ld: forward traversal does not come back to the head within %d steps", htname[G.htype], h, npool);
            else if (bad || (parsec_list_item_t *)g->list_prev != p) vf_violation("list:quiescent:back-link", "%s history %ld: backward links inconsistent with forward links at quiescence (%d elements)", htname[G.htype], h, k);
            if (!vf_nviolations && G.htype == H_SORTED) { int last = INT_MAX; for (it = (parsec_list_item_t *)g->list_next; it != g; it = (parsec_list_item_t *)it->list_next) { if (((elt_t *)it)->prio > last) { vf_violation("list:quiescent:not-non-increasing", "sorted history %ld: list not in non-increasing priority order at quiescence", h); break; } last = ((elt_t *)it)->prio; } }
            op_t *o = &hist[HN++]; o->tid = 99; o->type = O_UNCHAIN; o->n = 0; o->res = -1; o->roff = nrb; o->rn = 0; o->inv = vf_stamp();
            if (!vf_nviolations) { it = parsec_list_unchain(&CL); if (it) { parsec_list_item_t *w = it; int c = 0; do { parsec_list_item_t *nx = (parsec_list_item_t *)w->list_next; rb[nrb++] = (int16_t)((elt_t *)w)->id; o->rn++; int t = (int)(((elt_t *)w) - pool) % G.nthreads; G.mine[t][G.nmine[t]++] = (elt_t *)w; w = nx; c++; } while (w != it && c < npool); } }
            o->resp = vf_stamp();
        }
        totops += HN;
        if (!vf_nviolations) {   /* conservation */
            int cnt[MAXID]; memset(cnt, 0, sizeof cnt); int npu = 0, npo = 0, badid = -1;
            for (int i = 0; i < HN; i++) {
                if (hist[i].type <= O_CHAINB || hist[i].type == O_PUSHS || hist[i].type == O_CHAINS) for (int k = 0; k < hist[i].n; k++) { cnt[hist[i].ids[k]] += 1; npu++; }
                else if (hist[i].type == O_UNCHAIN) for (int k = 0; k < hist[i].rn; k++) { int id = rb[hist[i].roff + k]; if (id < 0 || id >= MAXID) { badid = id; continue; } cnt[id] += 100; npo++; }
                else if (hist[i].type != O_EMPTY && hist[i].type != O_SORT && hist[i].res >= 0) { if (hist[i].res >= MAXID) { badid = hist[i].res; continue; } cnt[hist[i].res] += 100; npo++; }
            }
            for (int id = 0; id < MAXID && !vf_nviolations; id++) {
                if (cnt[id] / 100 > 1) vf_violation("list:element-returned-twice", "%s history %ld: element %d was returned by %d removals", htname[G.htype], h, id, cnt[id] / 100);
                else if (cnt[id] == 100) vf_violation("list:returned-never-inserted", "%s history %ld: element %d returned but never inserted", htname[G.htype], h, id);
                else if (cnt[id] == 1) vf_violation("list:element-lost", "%s history %ld: element %d inserted and never returned, not in the list at quiescence (%d inserted, %d returned)", htname[G.htype], h, id, npu, npo);
            }
            if (badid >= 0 && !vf_nviolations) vf_violation("list:returned-garbage", "%s history %ld: a removal returned an element with id %d", htname[G.htype], h, badid);
            int tot = 0; for (int t = 0; t < G.nthreads; t++) tot += G.nmine[t];
            if (tot != npool && !vf_nviolations) vf_violation("list:pool-conservation", "%s history %ld: %d of %d elements accounted for", htname[G.htype], h, tot, npool);
        }
        if (vf_nviolations) { print_history("conservation", htname[G.htype]); break; }
        int ov = 0; for (int i = 0; i < HN && !ov; i++) for (int j = 0; j < HN; j++) if (hist[i].tid != hist[j].tid && hist[i].inv < hist[j].resp && hist[j].inv < hist[i].resp) { ov = 1; break; }
        qsort(hist, (size_t)HN, sizeof(op_t), cmp_inv);
        uint64_t sig = 0x77 + (uint64_t)G.htype;
        {   struct { uint64_t s; int v; } evs[2 * 64]; int ne = 0;
            for (int i = 0; i < HN; i++) { evs[ne].s = hist[i].inv; evs[ne++].v = hist[i].tid * 64 + hist[i].type * 2; evs[ne].s = hist[i].resp; evs[ne++].v = hist[i].tid * 64 + hist[i].type * 2 + 1 + (hist[i].res >= 0 ? 32 : 0); }
            for (int i = 1; i < ne; i++) { int j = i; while (j > 0 && evs[j - 1].s > evs[j].s) { __typeof__(evs[0]) tmp = evs[j]; evs[j] = evs[j - 1]; evs[j - 1] = tmp; j--; } }
            for (int i = 0; i < ne; i++) sig = vf_mix(sig, (uint64_t)evs[i].v); }
        for (int i = 0; i < HN; i++) if ((hist[i].type == O_TRYF || hist[i].type == O_TRYB) && hist[i].res < 0) trynull++;
        int16_t empty[1]; relax_sort = 0;
        memo_gen++; memo_n = 0; wgl_nodes = 0;
        int r = wgl(0, empty, 0);
        if (wgl_nodes > maxnodes) maxnodes = wgl_nodes;
        if (r == 0 && G.htype == H_SORT) {     /* distinguish the transient-empty window of the locked sort from anything else */
            relax_sort = 1; memo_gen++; memo_n = 0; wgl_nodes = 0;
            int r2 = wgl(0, empty, 0); relax_sort = 0;
            if (r2 == 1) { popnull_sort++; vf_violation("list:pop-null-during-sort", "sort history %ld: a pop returned NULL although the list was never empty in any linearization; the history is linearizable only if a pop overlapping parsec_list_sort may see an empty list", h); print_history("pop-null-during-sort", htname[G.htype]); vf_nviolations = 0; continue; }
        }
        if (r == 1) { lin++; if (ov) { overlapped++; if (sig_add(sig)) distinct++; } if (ov && samples < 4 && HN >= 8 && HN <= 16) { samples++; print_history("sample", htname[G.htype]); } }
        else if (r < 0) incon++;
        else { notlin++; char key[96]; snprintf(key, sizeof key, "list:%s:not-linearizable", htname[G.htype]); vf_violation(key, "%s history %ld (%d ops, %d threads) has no linearization against the sequential model", htname[G.htype], h, HN, G.nthreads); print_history("not-linearizable", htname[G.htype]); }
    }
    G.stop = 1; vf_spinbar_wait(&G.bar);
    for (int i = 0; i < G.nthreads; i++) pthread_join(th[i], NULL);
    vf_out("{\"type\":\"summary\",\"mode\":\"hist\",\"histories\":%ld,\"linearizable\":%ld,\"not_linearizable\":%ld,\"inconclusive\":%ld,\"overlapped\":%ld,\"distinct_overlapped\":%ld,"
           "\"ops\":%ld,\"max_wgl_nodes\":%ld,\"trypop_null\":%ld,\"threads\":%d,\"pop_null_during_sort\":%ld,\"h_list\":%ld,\"h_fifo\":%ld,\"h_dequeue\":%ld,\"h_sorted\":%ld,\"h_sort\":%ld,\"sort_direction\":\"%s\"}",
           lin + notlin + incon + popnull_sort, lin, notlin, incon, overlapped, distinct, totops, maxnodes, trynull, G.nthreads, popnull_sort,
           by_type[0], by_type[1], by_type[2], by_type[3], by_type[4], sort_dir_cal > 0 ? "ascending" : "descending");
    return (notlin || vf_nviolations) ? 1 : 0;
}

/* =================================================================== stress */
typedef struct { long rounds; uint64_t seed; volatile long ops; } stress_t;
static stress_t S; static parsec_list_t SL1, SL2;
static void stress_worker(int tid, int nt, void *arg) {
    (void)arg; (void)nt; vf_rng_t rng; vf_rng_seed(&rng, S.seed, tid + 100); int me = tid + 1; long n = 0;
    for (long r = 0; r < S.rounds && !vf_nviolations; r++) {
        uint32_t d = vf_randn(&rng, 8); parsec_list_t *l = (d & 4) ? &SL2 : &SL1;
        parsec_list_item_t *it = (d & 1) ? parsec_list_pop_front(l) : (d & 2) ? parsec_list_pop_back(l) : parsec_list_try_pop_front(l);
        if (!it) continue;
        elt_t *e = (elt_t *)it;
        if (!__sync_bool_compare_and_swap(&e->owner, 0, me)) { vf_violation("list:element-owned-twice", "element %d returned to thread %d while thread %d still owns it", (int)(e - pool), tid, e->owner - 1); return; }
        elt_t *e2 = NULL;
        if (vf_randn(&rng, 6) == 0 && (e2 = (elt_t *)parsec_list_pop_back(l)) && !__sync_bool_compare_and_swap(&e2->owner, 0, me)) { vf_violation("list:element-owned-twice", "element %d returned to thread %d while thread %d still owns it", (int)(e2 - pool), tid, e2->owner - 1); return; }
        e->owner = 0; if (e2) e2->owner = 0; __sync_synchronize();
        if (l == &SL2) { e->prio = (int)vf_randn(&rng, 6); if (e2) { e2->prio = (int)vf_randn(&rng, 6); PARSEC_LIST_ITEM_SINGLETON(&e->super); PARSEC_LIST_ITEM_SINGLETON(&e2->super); parsec_list_item_ring_push(&e->super, &e2->super); parsec_list_chain_sorted(l, &e->super, OFF); } else parsec_list_push_sorted(l, &e->super, OFF); }
        else if (e2) { PARSEC_LIST_ITEM_SINGLETON(&e->super); PARSEC_LIST_ITEM_SINGLETON(&e2->super); parsec_list_item_ring_push(&e->super, &e2->super); if (d & 1) parsec_list_chain_back(l, &e->super); else parsec_list_chain_front(l, &e->super); }
        else if (d & 2) parsec_list_push_front(l, &e->super); else parsec_list_push_back(l, &e->super);
        n++; if ((n & 1023) == 0) VF_TICK();
    }
    __sync_fetch_and_add(&S.ops, n);
}
static int run_stress(int argc, char **argv) {
    int nt = (int)vf_arg_ll(argc, argv, "--threads", 8); S.rounds = vf_arg_ll(argc, argv, "--rounds", 100000); S.seed = (uint64_t)vf_arg_ll(argc, argv, "--seed", 1);
    npool = (int)vf_arg_ll(argc, argv, "--elements", 24);
    if (posix_memalign((void **)&pool, 128, sizeof(elt_t) * (size_t)npool)) return 2; memset(pool, 0, sizeof(elt_t) * (size_t)npool);
    PARSEC_OBJ_CONSTRUCT(&SL1, parsec_list_t); PARSEC_OBJ_CONSTRUCT(&SL2, parsec_list_t);
    for (int i = 0; i < npool; i++) { PARSEC_OBJ_CONSTRUCT(&pool[i].super, parsec_list_item_t); pool[i].id = i; pool[i].prio = 0; parsec_list_push_back((i & 1) ? &SL2 : &SL1, &pool[i].super); }
    vf_team_run(nt, stress_worker, NULL);
    int *seen = calloc((size_t)npool, sizeof(int)); int cnt = 0, unsorted = 0, badlink = 0;
    for (int li = 0; li < 2 && !vf_nviolations; li++) { parsec_list_t *l = li ? &SL2 : &SL1; parsec_list_item_t *g = &l->ghost_element, *p = g, *it; int last = INT_MAX, k = 0;
        for (it = (parsec_list_item_t *)g->list_next; it != g && k <= npool; it = (parsec_list_item_t *)it->list_next, k++) { if ((elt_t *)it < pool || (elt_t *)it >= pool + npool) { badlink = 2; break; } seen[(elt_t *)it - pool]++; cnt++; if ((parsec_list_item_t *)it->list_prev != p) badlink = 1; p = it; if (li) { if (((elt_t *)it)->prio > last) unsorted = 1; last = ((elt_t *)it)->prio; } }
        if (k <= npool && (parsec_list_item_t *)g->list_prev != p) badlink = 1; }
    int bad = 0; for (int i = 0; i < npool; i++) if (seen[i] != 1) bad++;
    if (!vf_nviolations && (bad || cnt != npool)) vf_violation("list:stress:conservation", "after %ld operations on %d elements the two lists hold %d elements, %d ids not exactly once", S.ops, npool, cnt, bad);
    if (!vf_nviolations && badlink) vf_violation("list:stress:back-link", "backward links inconsistent with forward links after the stress run");
    if (!vf_nviolations && unsorted) vf_violation("list:stress:not-non-increasing", "the list fed only by sorted insertion is not in non-increasing order after the stress run");
    vf_out("{\"type\":\"summary\",\"mode\":\"stress\",\"ops\":%ld,\"threads\":%d,\"elements\":%d,\"final\":%d}", S.ops, nt, npool, cnt);
    return vf_nviolations ? 1 : 0;
}

int main(int argc, char **argv) {
    const char *mode = vf_arg(argc, argv, "--mode", "seq");
    vf_heartbeat_start();
    int rc = !strcmp(mode, "hist") ? run_hist(argc, argv) : !strcmp(mode, "stress") ? run_stress(argc, argv) : run_seq(argc, argv);
    vf_heartbeat_stop();
    return rc;
}
