/* C40: virtual-process maps match their specification.
 * One process = one map specification (PARSEC_MCA_runtime_vpmap in the environment, core count on the
 * command line, process cpuset from taskset).  After parsec_init the harness prints what the runtime built:
 *   - parsec_vpmap_get_nb_vp / get_vp_threads / get_vp_thread_affinity (+ nb_total_threads)
 *   - the context: nb_vp, per-vp nb_cores, per-stream th_id / core_id
 *   - parsec_context_query (nodes, rank)
 *   - the OS affinity of every thread of the process (from /proc/self/task) and the process cpuset at start
 * then starts and waits the (empty) context and finalises: a map that leaves an unusable context shows here.
 * The judgement is made by lib/checks/c40.py. */
#include "parsec/parsec_config.h"
#include "parsec/parsec_internal.h"
#include "parsec/runtime.h"
#include "parsec/execution_stream.h"
#include "parsec/parsec_hwloc.h"
#include "parsec/vpmap.h"
#include "parsec/utils/mca_param.h"
#include <mpi.h>
#include <dirent.h>
#include "kit.h"

/* Observability for the map parsers: the sanitizer run-time does not intercept strtoul / strtod, so an over-read that
 * happens inside them (a parser handing them a pointer past the end of a short field) would go unseen.  These two
 * definitions take precedence over libc's for calls made by libparsec.so; they first walk the characters the conversion
 * may consume with ordinary (instrumented) loads, then delegate to the C library.  The walk stops at the first character
 * that cannot belong to a number, and always at the terminating NUL, so it never reads more of a well-formed string. */
#include <dlfcn.h>
static void vf_walk_number(const char *p) {
    for (;; p++) {
        volatile char c = *p;                      /* instrumented load: reports heap/stack/global overflow with the caller's frames */
        if (!((c >= '0' && c <= '9') || (c >= 'a' && c <= 'z') || (c >= 'A' && c <= 'Z') || c == '+' || c == '-' || c == '.' || c == ' ' || c == '\t')) break;
    }
}
unsigned long strtoul(const char *nptr, char **endptr, int base) {
    static unsigned long (*real)(const char *, char **, int);
    if (!real) real = (unsigned long (*)(const char *, char **, int))dlsym(RTLD_NEXT, "strtoul");
    vf_walk_number(nptr);
    return real(nptr, endptr, base);
}
double strtod(const char *nptr, char **endptr) {
    static double (*real)(const char *, char **);
    if (!real) real = (double (*)(const char *, char **))dlsym(RTLD_NEXT, "strtod");
    vf_walk_number(nptr);
    return real(nptr, endptr);
}

extern hwloc_cpuset_t parsec_vpmap_get_vp_thread_affinity(int vp, int thread, int *ht);
extern int parsec_vpmap_get_vp_threads(int vp);

static void cpus_of_mask(cpu_set_t *m, char *dst, size_t n) {
    size_t k = 0; dst[0] = 0; int first = 1;
    for (int c = 0; c < CPU_SETSIZE && k + 8 < n; c++) if (CPU_ISSET(c, m)) { k += (size_t)snprintf(dst + k, n - k, "%s%d", first ? "" : ",", c); first = 0; }
}

int main(int argc, char **argv) {
    int cores = (int)vf_arg_ll(argc, argv, "--cores", 0);
    int do_run = !vf_has_flag(argc, argv, "--norun");
    char buf[8192], b2[1024];
    cpu_set_t start; CPU_ZERO(&start); sched_getaffinity(0, sizeof start, &start);
    cpus_of_mask(&start, b2, sizeof b2);
    vf_out("{\"type\":\"start\",\"cpuset\":[%s],\"cores_arg\":%d}", b2, cores);
    vf_heartbeat_start();
    int prov; MPI_Init_thread(NULL, NULL, MPI_THREAD_SERIALIZED, &prov);
    VF_TICK();
    int pargc = 0; char **pargv = NULL;
    parsec_context_t *ctx = parsec_init(cores, &pargc, &pargv);
    VF_TICK();
    if (!ctx) { vf_out("{\"type\":\"summary\",\"ok\":0,\"init\":\"null\"}"); MPI_Finalize(); return 3; }

    /* ---- what the vpmap module says */
    int nbvp = parsec_vpmap_get_nb_vp();
    size_t k = 0; k += (size_t)snprintf(buf + k, sizeof buf - k, "[");
    for (int v = 0; v < nbvp && k + 200 < sizeof buf; v++) {
        int nt = parsec_vpmap_get_vp_threads(v);
        k += (size_t)snprintf(buf + k, sizeof buf - k, "%s{\"threads\":%d,\"aff\":[", v ? "," : "", nt);
        for (int t = 0; t < nt && t < 64 && k + 200 < sizeof buf; t++) {
            int ht = -9; hwloc_cpuset_t cs = parsec_vpmap_get_vp_thread_affinity(v, t, &ht);
            char *s = NULL; if (cs) hwloc_bitmap_list_asprintf(&s, cs);
            k += (size_t)snprintf(buf + k, sizeof buf - k, "%s\"%s\"", t ? "," : "", cs ? s : "NULL"); free(s);
        }
        k += (size_t)snprintf(buf + k, sizeof buf - k, "]}");
    }
    snprintf(buf + k, sizeof buf - k, "]");
    int beyond = parsec_vpmap_get_vp_threads(nbvp), before = parsec_vpmap_get_vp_threads(-1);
    vf_out("{\"type\":\"vpmap\",\"nb_vp\":%d,\"nb_total_threads\":%d,\"vps\":%s,\"threads_of_vp_beyond\":%d,\"threads_of_vp_minus1\":%d}", nbvp, parsec_vpmap_get_nb_total_threads(), buf, beyond, before);

    /* ---- what the context holds */
    k = 0; k += (size_t)snprintf(buf + k, sizeof buf - k, "[");
    for (int v = 0; v < ctx->nb_vp && k + 200 < sizeof buf; v++) {
        parsec_vp_t *vp = ctx->virtual_processes[v];
        k += (size_t)snprintf(buf + k, sizeof buf - k, "%s{\"vp_id\":%d,\"nb_cores\":%d,\"es\":[", v ? "," : "", vp->vp_id, vp->nb_cores);
        for (int t = 0; t < vp->nb_cores && t < 64 && k + 100 < sizeof buf; t++) {
            parsec_execution_stream_t *es = vp->execution_streams[t];
            if (es) k += (size_t)snprintf(buf + k, sizeof buf - k, "%s[%d,%d]", t ? "," : "", es->th_id, es->core_id);
            else k += (size_t)snprintf(buf + k, sizeof buf - k, "%snull", t ? "," : "");
        }
        k += (size_t)snprintf(buf + k, sizeof buf - k, "]}");
    }
    snprintf(buf + k, sizeof buf - k, "]");
    char *allowed = NULL; hwloc_bitmap_list_asprintf(&allowed, ctx->cpuset_allowed_mask);
    vf_out("{\"type\":\"context\",\"nb_vp\":%d,\"vps\":%s,\"query_nodes\":%d,\"query_rank\":%d,\"allowed\":\"%s\",\"hwloc_real_cores\":%d}", ctx->nb_vp, buf,
           parsec_context_query(ctx, PARSEC_CONTEXT_QUERY_NODES), parsec_context_query(ctx, PARSEC_CONTEXT_QUERY_RANK), allowed, parsec_hwloc_nb_real_cores());
    free(allowed);

    /* ---- OS view: affinity of every thread of this process */
    k = 0; k += (size_t)snprintf(buf + k, sizeof buf - k, "[");
    DIR *d = opendir("/proc/self/task"); struct dirent *e; int nth = 0;
    while (d && (e = readdir(d))) {
        if (e->d_name[0] == '.') continue;
        pid_t tid = (pid_t)atoi(e->d_name); cpu_set_t m; CPU_ZERO(&m);
        if (0 != sched_getaffinity(tid, sizeof m, &m)) continue;
        cpus_of_mask(&m, b2, sizeof b2);
        if (k + strlen(b2) + 40 < sizeof buf) k += (size_t)snprintf(buf + k, sizeof buf - k, "%s{\"tid\":%d,\"main\":%d,\"cpus\":[%s]}", nth ? "," : "", (int)tid, tid == getpid(), b2);
        nth++;
    }
    if (d) closedir(d);
    snprintf(buf + k, sizeof buf - k, "]");
    vf_out("{\"type\":\"os\",\"threads\":%d,\"affinity\":%s}", nth, buf);
    VF_TICK();

    /* ---- the context must be usable */
    int rs = 0, rw = 0;
    if (do_run) { rs = parsec_context_start(ctx); VF_TICK(); rw = parsec_context_wait(ctx); VF_TICK(); }
    parsec_fini(&ctx); VF_TICK();
    MPI_Finalize();
    vf_heartbeat_stop();
    vf_out("{\"type\":\"summary\",\"ok\":1,\"start_rc\":%d,\"wait_rc\":%d,\"ran\":%d}", rs, rw, do_run);
    return 0;
}
