/* C11, multi-threaded mode — the real four-counter module under real concurrency.
 *
 * Same simulated network and client discipline as c11_fourcounter.c (read its header first), but every simulated rank
 * is played by TWO threads that run concurrently against the module's own rw-lock, as in the runtime:
 *   worker thread : register / monitor+preload / taskpool_ready, startup units, tasks (outgoing_message_start,
 *                   local successors, task completion)
 *   comm thread   : deliveries to this rank (control messages through the real msg_dispatch, application messages:
 *                   incoming_message_start ... incoming_message_end), send completions, rendez-vous completions
 * All ranks share one process, hence one delayed-message list and one taskpool registry (like several taskpools of one
 * process in the runtime).
 *
 * Oracles (race-free by construction):
 *  - safety, inside every termination callback: shadow counters are atomics, incremented AND decremented before the
 *    module call, and new load is always added before the load that caused it is removed (a task spawns before it
 *    ends, a message is counted before its sender's task ends, received work is added before the message is retired).
 *    The system is closed, so a non-zero shadow read at any time during/after a callback proves that load existed when
 *    termination was declared.
 *  - liveness: 'outstanding' (sum of all shadows + not-ready ranks) can only reach 0 once, for good.  After a comm
 *    thread has seen it 0, more than LIVE_K*N*(log2 N+1) control deliveries without global termination = livelock.
 *    Deadlock is decided logically, not by time: every event is bracketed by an activity counter; the main thread
 *    declares deadlock only on a snapshot (no event in progress, no event begun or ended while reading, no control
 *    message in a channel, outstanding 0, not every rank terminated).
 * Schedules are not replayable; the seed fixes the workload parameters, the interleaving comes from the machine.
 */
#include "kit.h"
#include "parsec/parsec_config.h"
#include "parsec/parsec_internal.h"
#include "parsec/runtime.h"
#include "parsec/execution_stream.h"
#include "parsec/mca/termdet/termdet.h"
#include "parsec/mca/termdet/fourcounter/termdet_fourcounter.h"
#include "parsec/parsec_comm_engine.h"
#include "parsec/class/list.h"
#include <mpi.h>
#include <signal.h>

#define MAXN   8
#define MAXRDV 64
#define LIVE_K 64
#define AADD(x, k) __atomic_add_fetch(&(x), (k), __ATOMIC_SEQ_CST)
#define ALOAD(x)   __atomic_load_n(&(x), __ATOMIC_SEQ_CST)
#define ASTORE(x, v) __atomic_store_n(&(x), (v), __ATOMIC_SEQ_CST)

enum { K_APP = 0, K_CTL = 1 };
typedef struct msg_s { struct msg_s *next; int src, dst, kind; size_t size; unsigned char payload[32]; } msg_t;
typedef struct { pthread_mutex_t mx; msg_t *head, *tail; volatile int len; } chan_t;
typedef struct {
    int registered, monitored, startup;                     /* worker-private */
    volatile int ready, ready_done, terminated, term_calls; /* shared */
    volatile int tasks, actions, sendtok;                   /* shared: shadows and send-completion tokens */
    msg_t *parked_head, *parked_tail; msg_t *rdv[MAXRDV]; int nrdv; int snooze[MAXN][2]; uint64_t dhash;   /* comm-private */
    char pad[64];
} rank_t;
typedef struct {
    int N, unified;
    int p_send, p_send2, p_spawn, p_rdv, p_nopend, p_forward, p_hold, hold_max, p_pretask, p_setapi, p_late, p_keepact, p_slow_worker, p_slow_comm;
} sp_t;

static sp_t P;
static rank_t R[MAXN];
static chan_t CH[MAXN][MAXN][2];
static parsec_context_t *fctx[MAXN];
static parsec_taskpool_t *ftp[MAXN];
static __thread int cur_rank = -1;
static __thread vf_rng_t trng;
static volatile int task_budget, msg_budget;
static volatile long outstanding, ctl_inflight, in_call, activity, inflight_app, n_in_channel, n_parked, n_started, n_terminated, postq;
static volatile int stop, failed;
static volatile long waves, reactivations, delayed_ctl, parked_cnt, holds_cnt, rdv_cnt, late_lookup, overlap_seen;
static uint64_t sched_seed;
static long T_sched, T_nontrivial, T_waves, T_react, T_delayed, T_parked, T_holds, T_rdv, T_latelookup, T_ctl, T_app, T_tasks, T_forwards, T_nopend,
            T_leftover_ctl, T_callbacks, T_max_waves, T_max_postq, T_overlap, T_events;
static long T_byN[MAXN + 1];
static uint64_t *hashes; static long nhashes, caphashes;
static pthread_barrier_t bar_start, bar_end;
static volatile int quit_all;
static int list_model; static pthread_mutex_t list_mx;

#define EV_BEGIN() do { AADD(in_call, 1); AADD(activity, 1); } while (0)
#define EV_END()   do { AADD(activity, 1); AADD(in_call, -1); AADD(T_events, 1); VF_TICK(); } while (0)

static void fail(const char *key, const char *fmt, ...) {
    char buf[400]; va_list ap; va_start(ap, fmt); vsnprintf(buf, sizeof buf, fmt, ap); va_end(ap);
    ASTORE(failed, 1); ASTORE(stop, 1);
    vf_violation(key, "%s | multi-threaded list-model=%s N=%d channels=%s schedule_seed=%llu waves=%ld ctl_in_flight=%ld outstanding=%ld", buf, list_model == 0 ? "separate" : list_model == 1 ? "process" : "free", P.N,
                 P.unified ? "fifo-per-pair" : "fifo-per-pair-and-tag", (unsigned long long)sched_seed, waves, ctl_inflight, outstanding);
}
static void relax(void) { if (vf_chance(&trng, 100)) usleep(20); else sched_yield(); }

/* ---------------- network ---------------- */
static chan_t *chan_of(int s, int d, int kind) { return &CH[s][d][P.unified ? 0 : kind]; }
static void enq(chan_t *c, msg_t *m) { m->next = NULL; pthread_mutex_lock(&c->mx); if (c->tail) c->tail->next = m; else c->head = m; c->tail = m; c->len++; pthread_mutex_unlock(&c->mx); }
static msg_t *deq(chan_t *c) { pthread_mutex_lock(&c->mx); msg_t *m = c->head; if (m) { c->head = m->next; if (!c->head) c->tail = NULL; c->len--; m->next = NULL; } pthread_mutex_unlock(&c->mx); return m; }

static int my_send_am(parsec_comm_engine_t *ce, parsec_ce_tag_t tag, int remote, void *addr, size_t size) {
    (void)ce;
    if (tag != PARSEC_TERMDET_FOURCOUNTER_MSG_TAG) { fail("net:unexpected-tag", "send_am with tag %ld", (long)tag); return 0; }
    if (remote < 0 || remote >= P.N || size > sizeof(((msg_t *)0)->payload) || cur_rank < 0) {
        fail("net:ctl-destination-out-of-range", "rank %d sends control message to %d (size %zu)", cur_rank, remote, size); return 0; }
    msg_t *m = calloc(1, sizeof *m); m->src = cur_rank; m->dst = remote; m->kind = K_CTL; m->size = size; memcpy(m->payload, addr, size);
    parsec_termdet_fourcounter_msg_type_t t = *(parsec_termdet_fourcounter_msg_type_t *)addr;
    if (cur_rank == 0 && remote == 1 && t == PARSEC_TERMDET_FOURCOUNTER_MSG_TYPE_DOWN) AADD(waves, 1);
    AADD(ctl_inflight, 1);
    enq(chan_of(cur_rank, remote, K_CTL), m); AADD(T_ctl, 1);
    return 0;
}

/* ---------------- safety oracle ---------------- */
static void term_cb(parsec_taskpool_t *tp) {
    int r = -1;
    for (int q = 0; q < P.N; q++) if (ftp[q] == tp) r = q;
    if (r < 0) { fail("harness:unknown-taskpool", "callback for unknown taskpool"); return; }
    AADD(T_callbacks, 1);
    if (AADD(R[r].term_calls, 1) > 1) { fail("safety:callback-twice", "rank %d termination callback ran twice", r); return; }
    ASTORE(R[r].terminated, 1);
    for (int q = 0; q < P.N; q++) {
        int t = ALOAD(R[q].tasks), a = ALOAD(R[q].actions), rd = ALOAD(R[q].ready);
        if (t != 0 || a != 0 || !rd) {
            fail(q == r ? "safety:terminated-while-busy:self" : "safety:terminated-while-busy:other",
                 "rank %d declared termination while rank %d has %d tasks %d pending actions ready=%d", r, q, t, a, rd);
            return;
        }
    }
    long fl = ALOAD(inflight_app);
    if (fl != 0) {
        fail(ALOAD(n_started) ? "safety:terminated-with-message-in-flight:started-not-ended" :
             ALOAD(n_parked) ? "safety:terminated-with-message-in-flight:parked" : "safety:terminated-with-message-in-flight:in-channel",
             "rank %d declared termination with %ld application messages outstanding", r, fl);
        return;
    }
    if (AADD(n_terminated, 1) == P.N) ASTORE(stop, 1);
}

/* ---------------- client actions ---------------- */
#define MOD(r) (ftp[r]->tdm.module)
static int take(volatile int *b, int k) {
    for (;;) { int v = ALOAD(*b); if (v <= 0 || k <= 0) return 0; int g = k < v ? k : v; if (__atomic_compare_exchange_n(b, &v, v - g, 0, __ATOMIC_SEQ_CST, __ATOMIC_SEQ_CST)) return g; }
}
static void sh_tasks(int r, int k)   { if (k > 0) { AADD(outstanding, k); AADD(R[r].tasks, k); } else { AADD(R[r].tasks, k); AADD(outstanding, k); } }
static void sh_actions(int r, int k) { if (k > 0) { AADD(outstanding, k); AADD(R[r].actions, k); } else { AADD(R[r].actions, k); AADD(outstanding, k); } }
static void add_tasks(int r, int k)   { if (!k) return; sh_tasks(r, k); MOD(r)->taskpool_addto_nb_tasks(ftp[r], k); }
static void add_actions(int r, int k) { if (!k) return; sh_actions(r, k); MOD(r)->taskpool_addto_runtime_actions(ftp[r], k); }
static int pick_other(int r) { int d = vf_randn(&trng, P.N - 1); return d >= r ? d + 1 : d; }

static void send_app(int r, int d, int forward) {
    AADD(outstanding, 1); AADD(inflight_app, 1); AADD(n_in_channel, 1);
    int go = MOD(r)->outgoing_message_start(ftp[r], d, NULL);
    if (go != 1) fail("client:outgoing-message-delayed", "outgoing_message_start returned %d", go);
    msg_t *m = calloc(1, sizeof *m); m->src = r; m->dst = d; m->kind = K_APP;
    enq(chan_of(r, d, K_APP), m); AADD(T_app, 1); if (forward) AADD(T_forwards, 1);
}

static void do_monitor(int r) {
    parsec_termdet_open_module(ftp[r], "fourcounter");
    MOD(r)->monitor_taskpool(ftp[r], term_cb);
    R[r].monitored = 1;
    int c = 1 + vf_randn(&trng, 3);
    sh_actions(r, c); R[r].startup = c;
    if (vf_chance(&trng, P.p_setapi)) MOD(r)->taskpool_set_runtime_actions(ftp[r], c); else MOD(r)->taskpool_addto_runtime_actions(ftp[r], c);
    if (vf_chance(&trng, P.p_pretask)) {
        int k = take(&task_budget, 1 + vf_randn(&trng, 2));
        if (k) { sh_tasks(r, k); if (vf_chance(&trng, P.p_setapi)) MOD(r)->taskpool_set_nb_tasks(ftp[r], k); else MOD(r)->taskpool_addto_nb_tasks(ftp[r], k); }
    }
}
static void do_ready(int r) {
    ASTORE(R[r].ready, 1); AADD(outstanding, -1);     /* the not-ready unit; the startup actions are already counted */
    if (list_model == 0) pthread_mutex_lock(&list_mx);
    MOD(r)->taskpool_ready(ftp[r]);
    if (list_model == 0) pthread_mutex_unlock(&list_mx);
    ASTORE(R[r].ready_done, 1);
}
static void do_startup(int r) {
    int k = take(&task_budget, vf_randn(&trng, 4));
    add_tasks(r, k);
    R[r].startup--;
    add_actions(r, -1);
}
static void do_task(int r) {
    int sent = 0; AADD(T_tasks, 1);
    if (P.N > 1 && vf_chance(&trng, P.p_send)) {
        int nd = take(&msg_budget, 1 + vf_chance(&trng, P.p_send2));
        for (int i = 0; i < nd && !ALOAD(failed); i++) {
            if (!sent) { add_actions(r, +1); sent = 1; }
            send_app(r, pick_other(r), 0);
        }
    }
    if (ALOAD(failed)) return;
    if (vf_chance(&trng, P.p_spawn)) add_tasks(r, take(&task_budget, 1 + vf_randn(&trng, 2)));
    if (sent) AADD(R[r].sendtok, 1);       /* the comm thread completes the send later */
    if (ALOAD(failed)) return;
    add_tasks(r, -1);
}
static void do_sendc(int r) { AADD(R[r].sendtok, -1); add_actions(r, -1); }

static void recv_end(int r, msg_t *m) {
    int pend = !vf_chance(&trng, P.p_nopend), k = take(&task_budget, vf_randn(&trng, 3));
    if (!pend) { if (k == 0) k = take(&task_budget, 1); if (k == 0) pend = 1; else AADD(T_nopend, 1); }
    if (pend) add_actions(r, +1);
    if (ALOAD(failed)) return;
    sh_tasks(r, k);
    AADD(inflight_app, -1); AADD(n_started, -1); AADD(outstanding, -1);
    if (k) MOD(r)->taskpool_addto_nb_tasks(ftp[r], k);
    if (ALOAD(failed)) return;
    MOD(r)->incoming_message_end(ftp[r], NULL);
    if (ALOAD(failed)) return;
    int fw = 0;
    if (pend && P.N > 2 && vf_chance(&trng, P.p_forward) && take(&msg_budget, 1)) { send_app(r, pick_other(r), 1); fw = 1; }
    if (ALOAD(failed)) return;
    if (pend) { if (fw || vf_chance(&trng, P.p_keepact)) AADD(R[r].sendtok, 1); else add_actions(r, -1); }
    free(m);
}
static void recv_start(int r, msg_t *m) {
    if (ALOAD(R[r].tasks) == 0 && ALOAD(R[r].actions) == 0) AADD(reactivations, 1); else AADD(overlap_seen, 1);
    AADD(n_started, 1);
    MOD(r)->incoming_message_start(ftp[r], m->src, NULL, NULL, 0, NULL);
    if (ALOAD(failed)) return;
    if (R[r].nrdv < MAXRDV && vf_chance(&trng, P.p_rdv)) { R[r].rdv[R[r].nrdv++] = m; AADD(rdv_cnt, 1); }
    else recv_end(r, m);
}
static void deliver(int d, msg_t *m) {
    int s = m->src;
    R[d].dhash = vf_mix(R[d].dhash, (uint64_t)s * 4 + m->kind);
    if (m->kind == K_APP) {
        AADD(n_in_channel, -1);
        if (ALOAD(R[d].terminated)) { fail("safety:message-for-terminated-rank", "application message %d->%d delivered after rank %d terminated", s, d, d); return; }
        if (!ALOAD(R[d].ready_done)) {
            m->next = NULL; if (R[d].parked_tail) R[d].parked_tail->next = m; else R[d].parked_head = m; R[d].parked_tail = m;
            AADD(n_parked, 1); AADD(parked_cnt, 1);
            return;
        }
        recv_start(d, m);
    } else {
        if (ALOAD(R[d].terminated)) { AADD(T_leftover_ctl, 1); AADD(ctl_inflight, -1); free(m); return; }
        ((parsec_termdet_fourcounter_msg_down_t *)m->payload)->tp_id = ftp[d]->taskpool_id;
        if (!ALOAD(R[d].ready_done)) AADD(delayed_ctl, 1);
        int q = (ALOAD(outstanding) == 0);
        if (list_model <= 1) pthread_mutex_lock(&list_mx);
        parsec_termdet_fourcounter_msg_dispatch(&parsec_ce, PARSEC_TERMDET_FOURCOUNTER_MSG_TAG, m->payload, m->size, s, NULL);
        if (list_model <= 1) pthread_mutex_unlock(&list_mx);
        AADD(ctl_inflight, -1);
        free(m);
        if (q && !ALOAD(stop)) {
            long lim = (long)LIVE_K * P.N * (1 + (P.N > 1) + (P.N > 2) + (P.N > 4));
            if (AADD(postq, 1) > lim && !ALOAD(stop))
                fail("liveness:livelock-after-quiescence", "all ranks idle and no application message outstanding for %ld control deliveries, not terminated", lim);
        }
    }
}

/* At a deadlock verdict no event is in progress: the module's state can be read safely.  The diagnosis names the
 * mechanism (it does not decide the verdict): which ranks wait, and whether the module's delayed-message list still
 * holds messages for taskpools that are ready (parked after/while the ready-flush ran) or has inconsistent links. */
static int stress_delayed = 0;
/* The module keeps ONE delayed-message list per process; here all simulated ranks share it.
 *   list_model 0 "separate" (default): taskpool_ready and msg_dispatch are serialised by a harness mutex, so the shared list never
 *                sees more concurrency than the per-process lists of really separate ranks would (none across ranks).
 *   list_model 1 "process": only msg_dispatch is serialised (a process has ONE comm thread), taskpool_ready runs concurrently from the
 *                workers: the legal concurrency of one process that runs several dynamic-termination taskpools at once.
 *   list_model 2 "free": nothing serialised (more concurrency than any real configuration; exploration only). */
/* (list_model and list_mx are declared at the top of the file) */
static int diagnose_deadlock(char *buf, size_t n) {
    size_t o = 0; static const char *sn[] = {"not-monitored", "not-ready", "busy", "idle", "terminated"};
    for (int r = 0; r < P.N && o + 40 < n; r++) {
        int st = ftp[r]->tdm.module ? (int)MOD(r)->taskpool_state(ftp[r]) : 0;
        o += snprintf(buf + o, n - o, "r%d=%s ", r, st >= 0 && st <= 4 ? sn[st] : "?");
    }
    parsec_list_t *L = &parsec_termdet_fourcounter_delayed_messages;
    int fwd = 0, bwd = 0, for_ready = 0, mine = 0;
    for (parsec_list_item_t *it = PARSEC_LIST_ITERATOR_FIRST(L); it != PARSEC_LIST_ITERATOR_END(L) && fwd < 100000; it = PARSEC_LIST_ITERATOR_NEXT(it)) {
        fwd++;
        parsec_termdet_fourcounter_delayed_msg_t *dm = (parsec_termdet_fourcounter_delayed_msg_t *)it;
        uint32_t id = ((parsec_termdet_fourcounter_msg_down_t *)dm->msg)->tp_id;
        for (int r = 0; r < P.N; r++) if (ftp[r] && ftp[r]->taskpool_id == id) { mine++; if (R[r].ready_done) { for_ready++; if (o + 60 < n) o += snprintf(buf + o, n - o, "[delayed msg for READY rank %d from %d] ", r, dm->src); } }
    }
    for (parsec_list_item_t *it = PARSEC_LIST_ITERATOR_LAST(L); it != PARSEC_LIST_ITERATOR_BEGIN(L) && bwd < 100000; it = PARSEC_LIST_ITERATOR_PREV(it)) bwd++;
    snprintf(buf + o, n - o, "| delayed list: %d items forward, %d backward, %d of this schedule, %d for ready taskpools", fwd, bwd, mine, for_ready);
    return fwd != bwd ? 2 : for_ready ? 1 : 0;
}

/* ---------------- threads ---------------- */
static void worker_main(int r) {
    cur_rank = r;
    while (!ALOAD(stop)) {
        if (!R[r].ready_done) {
            if (!vf_chance(&trng, P.p_late ? 30 : 600)) { relax(); continue; }
            EV_BEGIN();
            /* as in generated PTG code: monitor at construction, register at enable, then ready.  (Registering first would let
             * the comm thread read a half-built monitor: not a legal client order under concurrency.) */
            if (!R[r].monitored) do_monitor(r);
            else if (!R[r].registered) { parsec_taskpool_register(ftp[r]); R[r].registered = 1; }
            else do_ready(r);
            EV_END();
            continue;
        }
        if (ALOAD(R[r].terminated)) break;
        int tk = ALOAD(R[r].tasks);
        if (R[r].startup > 0 && (tk == 0 || vf_chance(&trng, 400))) { EV_BEGIN(); do_startup(r); EV_END(); }
        else if (tk > 0) { EV_BEGIN(); do_task(r); EV_END(); }
        else relax();
        if (vf_chance(&trng, P.p_slow_worker)) relax();
    }
}
static void comm_main(int r) {
    cur_rank = r;
    while (!ALOAD(stop)) {
        int cand[MAXN * 2 + 3][2], nc = 0;
        for (int s = 0; s < P.N; s++) for (int kx = 0; kx < 2; kx++) {
            if (CH[s][r][kx].len <= 0) continue;
            if (R[r].snooze[s][kx] > 0) { R[r].snooze[s][kx]--; continue; }
            cand[nc][0] = 0; cand[nc][1] = s * 2 + kx; nc++;
        }
        if (ALOAD(R[r].sendtok) > 0) { cand[nc][0] = 1; nc++; }
        if (R[r].nrdv > 0) { cand[nc][0] = 2; nc++; }
        if (R[r].parked_head && ALOAD(R[r].ready_done)) { cand[nc][0] = 3; nc++; }
        if (!nc) { relax(); continue; }
        int c = vf_randn(&trng, nc);
        if (cand[c][0] == 0) {
            int s = cand[c][1] / 2, kx = cand[c][1] % 2;
            if (P.p_hold && ALOAD(outstanding) != 0 && vf_chance(&trng, P.p_hold)) { R[r].snooze[s][kx] = 1 + vf_randn(&trng, P.hold_max); AADD(holds_cnt, 1); continue; }
            EV_BEGIN();
            msg_t *m = deq(&CH[s][r][kx]);
            if (m) deliver(r, m);
            EV_END();
        } else if (cand[c][0] == 1) { EV_BEGIN(); do_sendc(r); EV_END(); }
        else if (cand[c][0] == 2) { EV_BEGIN(); int j = vf_randn(&trng, R[r].nrdv); msg_t *m = R[r].rdv[j]; R[r].rdv[j] = R[r].rdv[--R[r].nrdv]; recv_end(r, m); EV_END(); }
        else { EV_BEGIN(); msg_t *m = R[r].parked_head; R[r].parked_head = m->next; if (!R[r].parked_head) R[r].parked_tail = NULL; m->next = NULL; AADD(n_parked, -1); recv_start(r, m); EV_END(); }
        if (vf_chance(&trng, P.p_slow_comm)) relax();
    }
}
static void *thread_main(void *arg) {
    int id = (int)(intptr_t)arg, r = id / 2, is_comm = id % 2;
    for (;;) {
        pthread_barrier_wait(&bar_start);
        if (quit_all) return NULL;
        if (r < P.N) { vf_rng_seed(&trng, sched_seed, 100 + id); if (is_comm) comm_main(r); else worker_main(r); }
        pthread_barrier_wait(&bar_end);
    }
}

static void choose_params(vf_rng_t *g, int nmax) {
    static const int nw[MAXN + 1] = {0, 1, 8, 14, 16, 16, 12, 14, 14};
    int tot = 0, x; for (int i = 1; i <= nmax; i++) tot += nw[i];
    x = vf_randn(g, tot); P.N = 1; while (x >= nw[P.N]) { x -= nw[P.N]; P.N++; }
    P.unified = vf_chance(g, 500);
    task_budget = 2 + vf_randn(g, 60); msg_budget = vf_randn(g, 40);
    P.p_send = 200 + vf_randn(g, 700); P.p_send2 = vf_randn(g, 500); P.p_spawn = vf_randn(g, 600);
    P.p_rdv = vf_chance(g, 300) ? 0 : vf_randn(g, 800); P.p_nopend = vf_chance(g, 600) ? 0 : vf_randn(g, 500);
    P.p_forward = vf_randn(g, 400); P.p_keepact = vf_randn(g, 500);
    P.p_hold = vf_chance(g, 300) ? 0 : 20 + vf_randn(g, 300); P.hold_max = 4 + vf_randn(g, 1 << (2 + vf_randn(g, 8)));
    P.p_pretask = vf_randn(g, 500); P.p_setapi = vf_randn(g, 500); P.p_late = vf_chance(g, 400);
    P.p_slow_worker = vf_chance(g, 500) ? 0 : vf_randn(g, 600); P.p_slow_comm = vf_chance(g, 500) ? 0 : vf_randn(g, 600);
    if (stress_delayed) {   /* many ranks become ready late and at about the same time, little work: the delayed-message path is busy */
        P.N = nmax; task_budget = 2 + vf_randn(g, 6); msg_budget = vf_randn(g, 3); P.p_hold = 0; P.p_late = 0; P.p_slow_worker = P.p_slow_comm = 0; P.p_rdv = 0;
    }
}

static int run_schedule(uint64_t seed, int nmax) {
    vf_rng_t g; vf_rng_seed(&g, seed, 11); sched_seed = seed;
    choose_params(&g, nmax);
    memset(R, 0, sizeof R);
    stop = failed = 0; outstanding = P.N; ctl_inflight = in_call = activity = inflight_app = n_in_channel = n_parked = n_started = n_terminated = postq = 0;
    waves = reactivations = delayed_ctl = parked_cnt = holds_cnt = rdv_cnt = late_lookup = overlap_seen = 0;
    for (int r = 0; r < P.N; r++) {
        fctx[r]->my_rank = r; fctx[r]->nb_nodes = P.N;
        if (!ftp[r]) { ftp[r] = PARSEC_OBJ_NEW(parsec_taskpool_t); ftp[r]->context = fctx[r]; parsec_taskpool_reserve_id(ftp[r]); }
    }
    pthread_barrier_wait(&bar_start);
    /* main thread: logical deadlock detector (time only decides how soon it looks, never what it concludes) */
    while (!ALOAD(stop)) {
        usleep(300);
        long v1 = ALOAD(activity), a = ALOAD(in_call), c = ALOAD(ctl_inflight), o = ALOAD(outstanding), nt = ALOAD(n_terminated), v2 = ALOAD(activity);
        if (v1 == v2 && a == 0 && c == 0 && o == 0 && nt < P.N && !ALOAD(stop)) {
            /* confirm once more after a pause: nothing can have changed if this was a true snapshot */
            usleep(2000);
            if (ALOAD(activity) == v1 && ALOAD(in_call) == 0 && ALOAD(ctl_inflight) == 0 && ALOAD(outstanding) == 0 && ALOAD(n_terminated) < P.N && !ALOAD(stop))
            {
                char dg[900]; int cls = diagnose_deadlock(dg, sizeof dg);
                fail(cls == 2 ? "liveness:deadlock-after-quiescence:delayed-list-links-inconsistent" :
                     cls == 1 ? "liveness:deadlock-after-quiescence:delayed-message-parked-for-ready-taskpool" : "liveness:deadlock-after-quiescence",
                     "all ranks idle, no message anywhere, %ld of %d ranks terminated: %s", ALOAD(n_terminated), P.N, dg);
            }
        }
    }
    pthread_barrier_wait(&bar_end);
    int bad = failed;
    if (!bad) {
        for (int r = 0; r < P.N; r++) if (R[r].term_calls != 1) { fail("safety:callback-count", "rank %d has %d callbacks at the end", r, R[r].term_calls); bad = 1; }
        if (!bad && (inflight_app || outstanding)) { fail("harness:accounting", "leftover load at the end: inflight %ld outstanding %ld", inflight_app, outstanding); bad = 1; }
    }
    uint64_t h = vf_mix(P.N, P.unified);
    for (int s = 0; s < P.N; s++) for (int d = 0; d < P.N; d++) for (int kx = 0; kx < 2; kx++) { msg_t *m; while ((m = deq(&CH[s][d][kx]))) { if (!bad && m->kind == K_CTL) T_leftover_ctl++; free(m); } }
    for (int r = 0; r < P.N; r++) {
        msg_t *m; while ((m = R[r].parked_head)) { R[r].parked_head = m->next; free(m); }
        for (int j = 0; j < R[r].nrdv; j++) free(R[r].rdv[j]);
        h = vf_mix(h, R[r].dhash);
        if (bad) { ftp[r] = NULL; continue; }
        cur_rank = r; MOD(r)->unmonitor_taskpool(ftp[r]); parsec_taskpool_unregister(ftp[r]);
    }
    if (bad) return 1;
    T_sched++; T_byN[P.N]++; T_waves += waves; T_react += reactivations; T_delayed += delayed_ctl; T_parked += parked_cnt; T_holds += holds_cnt; T_rdv += rdv_cnt;
    T_overlap += overlap_seen; if (waves > T_max_waves) T_max_waves = waves; if (postq > T_max_postq) T_max_postq = postq;
    if (reactivations >= 1 && waves >= 2) {
        T_nontrivial++;
        if (nhashes == caphashes) { caphashes = caphashes ? caphashes * 2 : 4096; hashes = realloc(hashes, caphashes * sizeof *hashes); }
        hashes[nhashes++] = h;
    }
    return 0;
}
static int cmp_u64(const void *a, const void *b) { uint64_t x = *(const uint64_t *)a, y = *(const uint64_t *)b; return x < y ? -1 : x > y; }
static void on_abort(int sig) { (void)sig; fprintf(stderr, "\nC11-mt abort context: schedule_seed=%llu N=%d waves=%ld\n", (unsigned long long)sched_seed, P.N, waves); fflush(stderr); }

int main(int argc, char **argv) {
    int prov; MPI_Init_thread(&argc, &argv, MPI_THREAD_SERIALIZED, &prov);
    long nsched = vf_arg_ll(argc, argv, "--schedules", 200);
    uint64_t seed = (uint64_t)vf_arg_ll(argc, argv, "--seed", 1);
    int nmax = (int)vf_arg_ll(argc, argv, "--nmax", MAXN);
    const char *hashfile = vf_arg(argc, argv, "--hashfile", NULL);
    stress_delayed = vf_has_flag(argc, argv, "--stress-delayed");
    { const char *lm = vf_arg(argc, argv, "--list-model", "separate"); list_model = !strcmp(lm, "process") ? 1 : !strcmp(lm, "free") ? 2 : 0; }
    pthread_mutex_init(&list_mx, NULL);
    if (nmax < 1 || nmax > MAXN) return 2;
    cpu_set_t cpus; sched_getaffinity(0, sizeof cpus, &cpus);
    int pargc = 1; char *pargv_[2] = {argv[0], NULL}; char **pargv = pargv_;
    parsec_context_t *real = parsec_init(1, &pargc, &pargv);
    if (!real) { fprintf(stderr, "parsec_init failed\n"); return 2; }
    sched_setaffinity(0, sizeof cpus, &cpus);
    struct sigaction sa; memset(&sa, 0, sizeof sa); sa.sa_handler = on_abort; sa.sa_flags = SA_RESETHAND; sigaction(SIGABRT, &sa, NULL);
    parsec_ce.send_am = my_send_am;
    for (int r = 0; r < MAXN; r++) fctx[r] = calloc(1, sizeof(parsec_context_t));
    for (int s = 0; s < MAXN; s++) for (int d = 0; d < MAXN; d++) for (int k = 0; k < 2; k++) pthread_mutex_init(&CH[s][d][k].mx, NULL);
    pthread_barrier_init(&bar_start, NULL, 2 * MAXN + 1); pthread_barrier_init(&bar_end, NULL, 2 * MAXN + 1);
    pthread_t th[2 * MAXN];
    for (int i = 0; i < 2 * MAXN; i++) pthread_create(&th[i], NULL, thread_main, (void *)(intptr_t)i);
    vf_heartbeat_start();
    int rc = 0;
    for (long i = 0; i < nsched; i++) {
        (void)run_schedule(vf_mix(seed, (uint64_t)i) >> 1, nmax);
        if (vf_nviolations >= 4) break;
    }
    vf_heartbeat_stop();
    quit_all = 1; pthread_barrier_wait(&bar_start);
    for (int i = 0; i < 2 * MAXN; i++) pthread_join(th[i], NULL);
    if (nhashes) qsort(hashes, nhashes, sizeof *hashes, cmp_u64);
    long distinct = 0; for (long i = 0; i < nhashes; i++) if (i == 0 || hashes[i] != hashes[i - 1]) hashes[distinct++] = hashes[i];
    if (hashfile) { FILE *f = fopen(hashfile, "wb"); if (f) { if (distinct) fwrite(hashes, sizeof *hashes, distinct, f); fclose(f); } }
    vf_out("{\"type\":\"summary\",\"mode\":\"mt\",\"list_model\":%d,\"schedules\":%ld,\"nontrivial\":%ld,\"distinct_nontrivial\":%ld,\"events\":%ld,\"waves\":%ld,\"max_waves\":%ld,"
           "\"reactivations\":%ld,\"app_received_while_busy\":%ld,\"ctl_delayed_not_ready\":%ld,\"app_parked\":%ld,\"holds\":%ld,\"rendezvous\":%ld,"
           "\"ctl_msgs\":%ld,\"app_msgs\":%ld,\"forwards\":%ld,\"recv_without_pending_action\":%ld,\"tasks\":%ld,\"callbacks\":%ld,\"leftover_ctl\":%ld,"
           "\"max_ctl_deliveries_after_quiescence\":%ld,\"byN\":[%ld,%ld,%ld,%ld,%ld,%ld,%ld,%ld],\"violations\":%d}",
           list_model, T_sched, T_nontrivial, distinct, T_events, T_waves, T_max_waves, T_react, T_overlap, T_delayed, T_parked, T_holds, T_rdv, T_ctl, T_app,
           T_forwards, T_nopend, T_tasks, T_callbacks, T_leftover_ctl, T_max_postq,
           T_byN[1], T_byN[2], T_byN[3], T_byN[4], T_byN[5], T_byN[6], T_byN[7], T_byN[8], vf_nviolations);
    fflush(stdout);
    (void)rc;
    _exit(vf_nviolations ? 1 : 0);
}
