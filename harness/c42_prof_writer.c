/* C42 writer: produces one binary trace (<base>-<rank>.prof) through the parsec_profiling_* API from a seeded random
 * scenario (dictionary, global / per-stream infos, several threads each owning a stream, random events with random
 * info payloads) and writes what it traced to a text file the reader harness compares with what dbpreader decodes.
 *
 * Variants: without VF_PROF_INLINE the profiling code of libparsec (prof flavour: mmap + helper thread) is used; with
 * -DVF_PROF_INLINE -DVF_PROF_MMAP=0|1 -DVF_PROF_HELPER=0|1 /repo/parsec/profiling.c is compiled into this binary with
 * the other back-end configurations (the options are compile-time switches of the same source file). */
#if defined(VF_PROF_INLINE)
#define BUILDING_PARSEC 1
#endif
#include "parsec/parsec_config.h"
#if defined(VF_PROF_INLINE)
#undef PARSEC_PROFILING_USE_MMAP
#undef PARSEC_PROFILING_USE_HELPER_THREAD
#if VF_PROF_MMAP
#define PARSEC_PROFILING_USE_MMAP 1
#endif
#if VF_PROF_HELPER
#define PARSEC_PROFILING_USE_HELPER_THREAD 1
#endif
#include "parsec/profiling.c"
#else
#include "parsec/profiling.h"
#include "parsec/parsec_binary_profile.h"
#endif
#include <stddef.h>
#include "kit.h"

#define MAXK 64
#define MAXTH 16

static uint64_t seed; static int rank;
static int nkeys, nkeys_phase1; static int klen[MAXK], ks[MAXK], ke[MAXK]; static char kname[MAXK][64], kattr[MAXK][32], *kconv[MAXK];
static long avail;                 /* bytes of payload per buffer (mirror of the writer's arithmetic, for coverage only) */
static int nth; static long nev[MAXTH];
static pthread_barrier_t bar;
static int edge_names;             /* --edge-names: strings of exactly the maximal stored length (63 / 127 characters) */
static int fitkey[MAXTH + 2];      /* per stream: index of a key whose event fills the current buffer to the last byte */
static FILE *exp_file; static pthread_mutex_t expm = PTHREAD_MUTEX_INITIALIZER;

typedef struct { int key; uint64_t eid; uint32_t tp; int flags, len; uint64_t skey; } ev_t;
typedef struct { char hr[128]; int ninfo; char ik[4][40], iv[4][200]; ev_t *ev; long n, cap; long switches, exact_fits, max_tail_waste; long pos; } st_t;
static st_t st[MAXTH + 2];

static inline uint64_t info_key(int th, long i) { return vf_mix(vf_mix(seed ^ 0x42ULL, (uint64_t)rank * 1000 + th), (uint64_t)i); }
static void stream_fill(uint8_t *p, size_t n, uint64_t key) { for (size_t j = 0; j < n; j++) p[j] = (uint8_t)(vf_mix(key, j >> 3) >> ((j & 7) * 8)); }
typedef struct { uint64_t key; } fn_arg_t;
static void *gen_info_fn(void *dst, const void *data, size_t size) { stream_fill((uint8_t *)dst, size, ((const fn_arg_t *)data)->key); return dst; }

static void rand_name(vf_rng_t *r, char *out, int minl, int maxl) {
    static const char cs[] = "abcdefghijklmnopqrstuvwxyzABCDEFGHIJKLMNOPQRSTUVWXYZ0123456789_:.-";
    int l = minl + vf_randn(r, maxl - minl + 1);
    for (int i = 0; i < l; i++) out[i] = cs[vf_randn(r, sizeof cs - 1)];
    out[l] = 0;
}
static char *rand_conv(vf_rng_t *r, int len_bytes) {
    /* a plausible convertor: fields of stdint types; its length is what matters to the dictionary buffers */
    int nf = 1 + vf_randn(r, 40); char *s = malloc(nf * 40 + 8); s[0] = 0;
    for (int i = 0; i < nf; i++) { char f[48]; snprintf(f, sizeof f, "%sf%d_%u{int%d_t}", i ? ";" : "", i, vf_randn(r, 100000), 8 << vf_randn(r, 4)); strcat(s, f); }
    (void)len_bytes; return s;
}
static void reg_key(int k) {
    int s = -1, e = -1;
    int rc = parsec_profiling_add_dictionary_keyword(kname[k], kattr[k], klen[k], kconv[k], &s, &e);
    if (rc != 0 || s < 2 || e != s + 1) { vf_violation("dictionary:register", "key %d (%s) registration returned %d keys %d/%d", k, kname[k], rc, s, e); }
    ks[k] = s; ke[k] = e;
    /* registering the same name again must return the same pair */
    int s2 = -1, e2 = -1; parsec_profiling_add_dictionary_keyword(kname[k], kattr[k], klen[k], kconv[k], &s2, &e2);
    if (s2 != s || e2 != e) vf_violation("dictionary:register-twice", "key %s registered twice got %d/%d then %d/%d", kname[k], s, e, s2, e2);
}

static void trace_some(int th, parsec_profiling_stream_t *ps, vf_rng_t *r, long n, int k_avail, int first_key) {
    st_t *S = &st[th]; uint8_t *buf = malloc(avail + 64);
    for (long c = 0; c < n; c++) {
        long i = S->n;
        int k; long rem = avail - S->pos;
        /* bias towards the buffer end: when few bytes are left try to fit exactly */
        k = vf_randn(r, k_avail);
        if (rem >= 24 && vf_chance(r, 350)) for (int q = 0; q < k_avail; q++) if (24 + klen[q] == rem) { k = q; break; }
        int end = vf_randn(r, 2), has = klen[k] > 0 && vf_chance(r, 750);
        if (c == 0 && first_key >= 0) { k = first_key; has = klen[k] > 0; }
        static const int fl[] = {0, 0, 0, PARSEC_PROFILING_EVENT_RESCHEDULED, PARSEC_PROFILING_EVENT_COUNTER, PARSEC_PROFILING_EVENT_TIME_AT_START,
                                 PARSEC_PROFILING_EVENT_RESCHEDULED | PARSEC_PROFILING_EVENT_TIME_AT_START};
        int flags = fl[vf_randn(r, 7)];
        ev_t e; e.key = end ? ke[k] : ks[k]; e.eid = vf_rand(r); if (vf_chance(r, 100)) e.eid = vf_randn(r, 3) ? (uint64_t)c : ~0ULL;
        e.tp = (uint32_t)vf_rand(r); if (vf_chance(r, 100)) e.tp = PROFILE_OBJECT_ID_NULL;
        e.len = has ? klen[k] : 0; e.skey = info_key(th, i); e.flags = flags | (has ? PARSEC_PROFILING_EVENT_HAS_INFO : 0);
        int api = vf_randn(r, 4), rc;
        if (has && api != 2) stream_fill(buf, klen[k], e.skey);
        fn_arg_t fa = { e.skey };
        switch (api) {
        case 0: rc = parsec_profiling_trace_flags(ps, e.key, e.eid, e.tp, has ? buf : NULL, (uint16_t)flags); break;
        case 1: if (flags == 0) { rc = parsec_profiling_trace(ps, e.key, e.eid, e.tp, has ? buf : NULL); break; } /* fallthrough */
        case 2: rc = parsec_profiling_trace_flags_info_fn(ps, e.key, e.eid, e.tp, has ? gen_info_fn : NULL, has ? &fa : NULL, (uint16_t)flags); break;
        default: rc = parsec_profiling_ts_trace_flags_info_fn(e.key, e.eid, e.tp, has ? memcpy : NULL, has ? buf : NULL, (uint16_t)flags); break;
        }
        if (has) memset(buf, 0x5A, klen[k]);          /* the library must have copied the payload */
        if (rc != 0) { vf_violation("trace:return", "stream %d event %ld: trace call returned %d (%s)", th, i, rc, parsec_profiling_strerror()); break; }
        /* mirror of the buffer arithmetic (coverage counters only) */
        long len = 24 + e.len;
        if (S->pos + len > avail) { S->switches++; if (avail - S->pos > S->max_tail_waste) S->max_tail_waste = avail - S->pos; S->pos = 0; }
        S->pos += len; if (S->pos == avail) S->exact_fits++;
        if (S->n == S->cap) { S->cap = S->cap ? S->cap * 2 : 1024; S->ev = realloc(S->ev, S->cap * sizeof(ev_t)); }
        S->ev[S->n++] = e; VF_TICK();
    }
    free(buf);
}

static void *worker(void *a) {
    int th = (int)(intptr_t)a; vf_rng_t r; vf_rng_seed(&r, seed, 100 + rank * 64 + th);
    st_t *S = &st[th];
    char suffix[64]; rand_name(&r, suffix, 0, 60);
    snprintf(S->hr, sizeof S->hr, "vf r%d th%d %s", rank, th, suffix);
    if (edge_names && th == 0) { int l0 = (int)strlen(S->hr); memset(S->hr + l0, 'y', 127 - l0); S->hr[127] = 0; }
    parsec_profiling_stream_t *ps = parsec_profiling_stream_init(4096, "%s", S->hr);
    if (!ps) { vf_violation("stream:init", "stream_init failed for thread %d: %s", th, parsec_profiling_strerror()); pthread_barrier_wait(&bar); pthread_barrier_wait(&bar); pthread_barrier_wait(&bar); pthread_barrier_wait(&bar); return NULL; }
    parsec_profiling_set_default_thread(ps);
    S->ninfo = vf_randn(&r, 4);
    for (int i = 0; i < S->ninfo; i++) {
        snprintf(S->ik[i], sizeof S->ik[i], "vf.ti%d.", i); rand_name(&r, S->ik[i] + strlen(S->ik[i]), 1, 20); rand_name(&r, S->iv[i], 1, 150);
        if (i == 0) { profiling_stream_save_iinfo(ps, S->ik[i], 12345 + th); snprintf(S->iv[i], sizeof S->iv[i], "%d", 12345 + th); }
        else parsec_profiling_stream_add_information(ps, S->ik[i], S->iv[i]);
    }
    pthread_barrier_wait(&bar);            /* streams exist */
    pthread_barrier_wait(&bar);            /* profiling started */
    long n1 = nev[th] / 2;
    trace_some(th, ps, &r, n1, nkeys_phase1, -1);
    pthread_barrier_wait(&bar);            /* quiet point: the main thread registers the remaining keys */
    pthread_barrier_wait(&bar);
    trace_some(th, ps, &r, nev[th] - n1, nkeys, nev[th] - n1 > 0 ? fitkey[th] : -1);
    return NULL;
}

int main(int argc, char **argv) {
    seed = (uint64_t)vf_arg_ll(argc, argv, "--seed", 1); rank = (int)vf_arg_ll(argc, argv, "--rank", 0);
    nth = (int)vf_arg_ll(argc, argv, "--threads", 3); long events = vf_arg_ll(argc, argv, "--events", 400);
    nkeys = (int)vf_arg_ll(argc, argv, "--keys", 6); int pages = (int)vf_arg_ll(argc, argv, "--pages", 1);
    const char *base = vf_arg(argc, argv, "--base", "vf"); const char *expn = vf_arg(argc, argv, "--expected", "expected.txt");
    uint64_t dseed = (uint64_t)vf_arg_ll(argc, argv, "--dict-seed", (long long)seed);   /* ranks of one job share a key pool */
    edge_names = vf_has_flag(argc, argv, "--edge-names");
    if (nth > MAXTH) nth = MAXTH; if (nkeys > MAXK - MAXTH - 2) nkeys = MAXK - MAXTH - 2; if (nkeys < 1) nkeys = 1;
    long ps = sysconf(_SC_PAGESIZE);
    avail = pages * ps - (long)offsetof(parsec_profiling_buffer_t, buffer);
    vf_heartbeat_start();
    vf_rng_t r; vf_rng_seed(&r, seed, 7 + rank);
    vf_rng_t dr; vf_rng_seed(&dr, dseed, 5);

    /* ---- dictionary pool (shared by the ranks of a job), each rank registers it in its own order ---- */
    long maxinfo = avail - 24 - 1;         /* assert( this_event_length < event_avail_space ) */
    static const int fixed[] = {0, 1, 2, 3, 4, 5, 6, 7, 8, 12, 16, 24, 40, 100, 1000, 2000};
    for (int k = 0; k < nkeys; k++) {
        int c = vf_randn(&dr, 100); long L;
        if (k == 0) L = 0; else if (k == 1) L = maxinfo; else if (c < 60) L = fixed[vf_randn(&dr, 16)]; else if (c < 92) L = vf_randn(&dr, 300); else L = vf_randn(&dr, (uint32_t)maxinfo + 1);
        if (L > maxinfo) L = maxinfo;
        klen[k] = (int)L; snprintf(kname[k], 64, "K%d_", k); rand_name(&dr, kname[k] + strlen(kname[k]), 0, 62 - (int)strlen(kname[k]));
        if (edge_names && k % 5 == 2) { int l0 = (int)strlen(kname[k]); memset(kname[k] + l0, 'x', 63 - l0); kname[k][63] = 0; }
        snprintf(kattr[k], sizeof kattr[k], "fill:#%06X", vf_randn(&dr, 1 << 24));
        kconv[k] = (L > 0 || vf_chance(&dr, 300)) ? rand_conv(&dr, (int)L) : NULL;
    }
    int order[MAXK]; for (int k = 0; k < nkeys; k++) order[k] = k;
    for (int k = nkeys - 1; k > 0; k--) { int j = vf_randn(&r, k + 1); int t = order[k]; order[k] = order[j]; order[j] = t; }
    { /* apply the permutation to the tables so that index == registration order on this rank */
        int l2[MAXK]; char n2[MAXK][64], a2[MAXK][32]; char *c2[MAXK];
        for (int k = 0; k < nkeys; k++) { l2[k] = klen[order[k]]; memcpy(n2[k], kname[order[k]], 64); memcpy(a2[k], kattr[order[k]], 32); c2[k] = kconv[order[k]]; }
        memcpy(klen, l2, sizeof(int) * nkeys); memcpy(kname, n2, 64 * nkeys); memcpy(kattr, a2, 32 * nkeys); memcpy(kconv, c2, sizeof(char *) * nkeys);
    }
    nkeys_phase1 = nkeys > 2 ? nkeys - nkeys / 3 : nkeys;

    /* ---- global infos: some before the trace file exists, some after ---- */
    int ngi = 1 + vf_randn(&r, 5); char gik[8][48]; char *giv[8];
    for (int i = 0; i < ngi; i++) {
        snprintf(gik[i], sizeof gik[i], "vf.gi%d.", i); rand_name(&r, gik[i] + strlen(gik[i]), 1, 30);
        long vl = vf_chance(&r, 300) ? (long)vf_randn(&r, (uint32_t)(3 * avail)) : (long)vf_randn(&r, 200);
        if (i == 0) vl = avail - (long)strlen(gik[i]) - 8 + (long)vf_randn(&r, 17) - 8;    /* value ends around the first buffer boundary (other infos permitting) */
        if (vl < 0) vl = 0;
        giv[i] = malloc(vl + 1); for (long j = 0; j < vl; j++) giv[i][j] = (char)('!' + vf_randn(&r, 90)); giv[i][vl] = 0;
    }
    if (parsec_profiling_init(rank) != 0) { fprintf(stderr, "profiling_init failed\n"); return 2; }
    int gsplit = vf_randn(&r, ngi + 1);
    for (int i = 0; i < gsplit; i++) parsec_profiling_add_information(gik[i], giv[i]);
    char hrinfo[128]; snprintf(hrinfo, sizeof hrinfo, "vf c42 roundtrip dict-seed %llu", (unsigned long long)dseed);
    if (edge_names) { int l0 = (int)strlen(hrinfo); memset(hrinfo + l0, 'z', 127 - l0); hrinfo[127] = 0; }
    if (parsec_profiling_dbp_start(base, hrinfo) != 0) { fprintf(stderr, "dbp_start failed: %s\n", parsec_profiling_strerror()); return 2; }
    for (int i = gsplit; i < ngi; i++) parsec_profiling_add_information(gik[i], giv[i]);
    for (int k = 0; k < nkeys_phase1; k++) reg_key(k);

    /* ---- streams ---- */
    for (int t = 0; t < nth; t++) {
        int c = vf_randn(&r, 100);
        nev[t] = c < 15 ? (long)vf_randn(&r, 12) + 1 : c < 30 ? events / 10 + 1 : events / 2 + (long)vf_randn(&r, (uint32_t)events + 1);
    }
    pthread_barrier_init(&bar, NULL, nth + 1);
    pthread_t th[MAXTH];
    for (int t = 0; t < nth; t++) pthread_create(&th[t], NULL, worker, (void *)(intptr_t)t);
    /* a stream that never traces (must not appear) and one owned by the main thread */
    parsec_profiling_stream_t *idle = parsec_profiling_stream_init(4096, "vf r%d idle stream", rank); (void)idle;
    st_t *M = &st[nth]; snprintf(M->hr, sizeof M->hr, "vf r%d main", rank);
    parsec_profiling_stream_t *mps = parsec_profiling_stream_init(4096, "%s", M->hr);
    parsec_profiling_set_default_thread(mps);
    pthread_barrier_wait(&bar);
    parsec_profiling_start();
    pthread_barrier_wait(&bar);
    vf_rng_t mr; vf_rng_seed(&mr, seed, 900 + rank);
    long mn = 1 + (long)vf_randn(&mr, 40);
    trace_some(nth, mps, &mr, mn / 2, nkeys_phase1, -1);
    pthread_barrier_wait(&bar);
    for (int k = nkeys_phase1; k < nkeys; k++) reg_key(k);
    /* one key per stream sized so that its next event ends exactly on the last byte of the stream's current buffer
     * (and, for every other stream, one byte beyond it) */
    for (int t = 0; t <= nth; t++) {
        long rem = avail - st[t].pos - 24 + ((t & 1) && t < nth ? 1 : 0);
        fitkey[t] = -1;
        if (rem >= 0 && rem <= maxinfo && nkeys < MAXK) {
            int k = nkeys++; klen[k] = (int)rem; snprintf(kname[k], 64, "FIT_%d_%ld", t, rem); snprintf(kattr[k], sizeof kattr[k], "fill:#%06X", 0xF17000 + t);
            kconv[k] = rem ? rand_conv(&mr, 0) : NULL; reg_key(k); fitkey[t] = k;
        }
    }
    pthread_barrier_wait(&bar);
    trace_some(nth, mps, &mr, mn - mn / 2, nkeys, fitkey[nth]);
    /* the smallest non-empty stream: exactly one event without info (24 bytes in its only buffer) */
    {
        st_t *S1 = &st[nth + 1]; snprintf(S1->hr, sizeof S1->hr, "vf r%d single", rank);
        parsec_profiling_stream_t *sps = parsec_profiling_stream_init(4096, "%s", S1->hr);
        int q0 = -1; for (int q = 0; q < nkeys; q++) if (klen[q] == 0) { q0 = q; break; }
        if (sps && q0 >= 0) {
            ev_t e; e.key = ks[q0]; e.eid = 0x5151; e.tp = 7; e.flags = 0; e.len = 0; e.skey = 0;
            if (0 == parsec_profiling_trace_flags(sps, e.key, e.eid, e.tp, NULL, 0)) { S1->ev = malloc(sizeof(ev_t)); S1->ev[0] = e; S1->n = 1; }
            else vf_violation("trace:return", "single-event stream: trace failed");
        }
    }
    for (int t = 0; t < nth; t++) pthread_join(th[t], NULL);
    int rc = parsec_profiling_dbp_dump();
    if (rc != 0) vf_violation("dump:return", "parsec_profiling_dbp_dump returned %d (%s)", rc, parsec_profiling_strerror());
    parsec_profiling_fini();

    /* ---- what was traced ---- */
    exp_file = fopen(expn, "w"); if (!exp_file) { perror(expn); return 2; }
    fprintf(exp_file, "R %d %ld %s\n", rank, (long)(pages * ps), hrinfo);
    fprintf(exp_file, "D 0 0 000000 N/A -\n");
    for (int k = 0; k < nkeys; k++) fprintf(exp_file, "D %d %d %s %s %s\n", ks[k] / 2, klen[k], kattr[k] + strlen(kattr[k]) - 6, kname[k], kconv[k] ? kconv[k] : "-");
    for (int i = 0; i < ngi; i++) fprintf(exp_file, "G %s %zu %s\n", gik[i], strlen(giv[i]), giv[i]);
    long total = 0, switches = 0, exact = 0, waste = 0; int nstreams = 0;
    for (int t = 0; t <= nth + 1; t++) {
        st_t *S = &st[t]; if (!S->n) continue;
        nstreams++; total += S->n; switches += S->switches; exact += S->exact_fits; if (S->max_tail_waste > waste) waste = S->max_tail_waste;
        fprintf(exp_file, "T %ld %d %s\n", S->n, S->ninfo, S->hr);
        for (int i = 0; i < S->ninfo; i++) fprintf(exp_file, "I %s %s\n", S->ik[i], S->iv[i]);
        for (long i = 0; i < S->n; i++) fprintf(exp_file, "E %d %llu %u %d %d %llu\n", S->ev[i].key, (unsigned long long)S->ev[i].eid, S->ev[i].tp, S->ev[i].flags, S->ev[i].len, (unsigned long long)S->ev[i].skey);
    }
    fprintf(exp_file, "Z\n"); fclose(exp_file);
    vf_heartbeat_stop();
    int maxl = 0; for (int k = 0; k < nkeys; k++) if (klen[k] > maxl) maxl = klen[k];
    vf_out("{\"type\":\"summary\",\"rank\":%d,\"streams\":%d,\"threads\":%d,\"events\":%ld,\"keys\":%d,\"max_info\":%d,\"avail\":%ld,\"buffer_switches\":%ld,\"exact_fits\":%ld,"
           "\"max_tail_waste\":%ld,\"global_infos\":%d,\"violations\":%d}", rank, nstreams, nth, total, nkeys, maxl, avail, switches, exact, waste, ngi, vf_nviolations);
    return vf_nviolations ? 1 : 0;
}
