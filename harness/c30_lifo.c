/* C30: the lock-free LIFO is a linearizable stack.
 * Modes:  hist   - many short concurrent histories, each checked with a WGL linearizability search
 *                  against a sequential stack model + conservation at quiescence
 *         stress - long conservation / single-ownership stress with immediate recycling (ABA-prone)
 * Built twice: -DVF_LIFO_INLINE (header implementation) and without (external functions of libparsec). */
#if defined(VF_LIFO_INLINE)
#define BUILDING_PARSEC 1
#endif
#include "parsec/parsec_config.h"
#if defined(VF_LIFO_INLINE) && defined(PARSEC_VERIF)
/* Inline build only: the atomic primitives the header-only LIFO is written with are interposed with delay-injecting
 * wrappers, so that a delay can also fall AFTER the arguments of a compare-and-swap were evaluated (e.g. item->list_next read
 * for a pop) and BEFORE the instruction executes, and around the read barrier — places where no source hook can sit.
 * A delay is always a legal schedule: this cannot make correct code fail. */
#include "parsec/sys/atomic.h"
#include "parsec/class/list_item.h"
#include <sched.h>
static inline int vf_cas128_delayed(volatile __int128_t *loc, __int128_t o, __int128_t n) { PARSEC_VERIF_YIELD(PARSEC_VERIF_SITE_LIFO); return parsec_atomic_cas_int128(loc, o, n); }
static inline int vf_casptr_delayed(volatile void *loc, const void *o, const void *n) { PARSEC_VERIF_YIELD(PARSEC_VERIF_SITE_LIFO); return parsec_atomic_cas_ptr(loc, o, n); }
static inline void vf_rmb_delayed(void) { PARSEC_VERIF_YIELD(PARSEC_VERIF_SITE_LIFO); parsec_atomic_rmb(); PARSEC_VERIF_YIELD(PARSEC_VERIF_SITE_LIFO); }
#define parsec_atomic_cas_int128(l, o, n) vf_cas128_delayed((l), (o), (n))
#define parsec_atomic_cas_ptr(l, o, n) vf_casptr_delayed((l), (o), (n))
#define parsec_atomic_rmb() vf_rmb_delayed()
#endif
#include "parsec/class/lifo.h"
#include "parsec/class/list_item.h"
#include "kit.h"

#define MAXT 16
#define MAXOPS 64
#define MAXCH 3
enum { OP_PUSH, OP_CHAIN, OP_POP, OP_TRYPOP };
static const char *opname[] = {"push", "chain", "pop", "try_pop"};

typedef struct { parsec_list_item_t super; volatile int64_t id; volatile int owner; char pad[64]; } elt_t;
typedef struct { int tid, type, n; int64_t ids[MAXCH]; int64_t res; uint64_t inv, resp; } op_t;

static parsec_lifo_t lifo;
static elt_t *pool; static int npool;

/* ------------------------------------------------------------------ WGL checker */
typedef struct { uint64_t mask, h1, h2; } memo_t;
static memo_t *memo; static size_t memo_cap, memo_n;
static long wgl_nodes, wgl_budget;
static op_t *H; static int HN;
static int64_t mstack[MAXOPS * MAXCH]; static int msp;

static int memo_seen(uint64_t mask, uint64_t h1, uint64_t h2) {
    size_t i = (size_t)(vf_mix(mask, h1) % memo_cap);
    for (;;) {
        if (memo[i].h2 == 0 && memo[i].mask == 0 && memo[i].h1 == 0) {
            if (memo_n * 2 > memo_cap) return 0; /* table full: stop memoising (sound, only slower) */
            memo[i].mask = mask; memo[i].h1 = h1; memo[i].h2 = h2 | 1; memo_n++; return 0;
        }
        if (memo[i].mask == mask && memo[i].h1 == h1 && memo[i].h2 == (h2 | 1)) return 1;
        i = (i + 1) % memo_cap;
    }
}
static void stack_hash(uint64_t *h1, uint64_t *h2) {
    uint64_t a = 0x1234567, b = 0xabcdef01;
    for (int i = 0; i < msp; i++) { a = vf_mix(a, (uint64_t)mstack[i]); b = vf_mix(b ^ 0x5555, (uint64_t)mstack[i] * 31 + 7); }
    *h1 = a; *h2 = b;
}
static int overlaps_any(int o) {
    for (int p = 0; p < HN; p++) if (p != o && H[p].inv < H[o].resp && H[o].inv < H[p].resp) return 1;
    return 0;
}
/* returns 1 linearizable, 0 not, -1 budget exhausted */
static int wgl(uint64_t mask) {
    if (mask == (HN == 64 ? ~0ULL : ((1ULL << HN) - 1))) return 1;
    if (++wgl_nodes > wgl_budget) return -1;
    uint64_t h1, h2; stack_hash(&h1, &h2);
    if (memo_seen(mask, h1, h2)) return 0;
    uint64_t minresp = ~0ULL;
    for (int i = 0; i < HN; i++) if (!(mask >> i & 1) && H[i].resp < minresp) minresp = H[i].resp;
    for (int i = 0; i < HN; i++) {
        if ((mask >> i & 1) || H[i].inv > minresp) continue;
        op_t *o = &H[i]; int sp0 = msp; int ok = 1; int64_t saved = 0;
        switch (o->type) {
        case OP_PUSH: mstack[msp++] = o->ids[0]; break;
        case OP_CHAIN: for (int k = o->n - 1; k >= 0; k--) mstack[msp++] = o->ids[k]; break;
        case OP_POP:
            if (o->res < 0) ok = (msp == 0);
            else { ok = (msp > 0 && mstack[msp - 1] == o->res); if (ok) saved = mstack[--msp]; }
            break;
        case OP_TRYPOP:
            if (o->res < 0) ok = (msp == 0) || overlaps_any(i);
            else { ok = (msp > 0 && mstack[msp - 1] == o->res); if (ok) saved = mstack[--msp]; }
            break;
        }
        if (ok) {
            int r = wgl(mask | (1ULL << i));
            if (r != 0) return r;
        }
        /* undo */
        if (o->type == OP_PUSH || o->type == OP_CHAIN) msp = sp0;
        else if (ok && o->res >= 0) mstack[msp++] = saved;
    }
    return 0;
}

/* ------------------------------------------------------------------ history mode */
typedef struct {
    int nthreads, ops_per_thread; uint64_t seed; long nhist;
    vf_spinbar_t bar; volatile int stop;
    op_t log[MAXT][MAXOPS]; int nlog[MAXT];
    volatile long hist_no;
    int64_t next_id[MAXT];
    elt_t *mine[MAXT][MAXOPS * MAXCH]; int nmine[MAXT];
} hist_t;
static hist_t G;

static void hist_worker(int tid, int nt, void *arg) {
    (void)arg; (void)nt;
    vf_rng_t rng;
    for (;;) {
        vf_spinbar_wait(&G.bar);                 /* start of a history */
        if (G.stop) return;
        vf_rng_seed(&rng, G.seed + (uint64_t)G.hist_no * 1315423911ULL, tid + 1);
        int n = 0;
        for (int k = 0; k < G.ops_per_thread; k++) {
            op_t *o = &G.log[tid][n];
            int t = vf_randn(&rng, 100);
            o->tid = tid; o->n = 0; o->res = -1;
            if (t < 40 && G.nmine[tid] >= 1) {            /* push */
                elt_t *e = G.mine[tid][--G.nmine[tid]];
                e->id = ((int64_t)(tid + 1) << 40) | G.next_id[tid]++;
                o->type = OP_PUSH; o->n = 1; o->ids[0] = e->id;
                o->inv = vf_stamp(); parsec_lifo_push(&lifo, &e->super); o->resp = vf_stamp();
            } else if (t < 50 && G.nmine[tid] >= 2) {     /* chain of 2..3 */
                int c = 2 + (G.nmine[tid] >= 3 && vf_randn(&rng, 2));
                parsec_list_item_t *ring = NULL;
                o->type = OP_CHAIN; o->n = c;
                for (int j = 0; j < c; j++) {
                    elt_t *e = G.mine[tid][--G.nmine[tid]];
                    e->id = ((int64_t)(tid + 1) << 40) | G.next_id[tid]++;
                    o->ids[j] = e->id;
                    PARSEC_LIST_ITEM_SINGLETON(&e->super);
                    if (!ring) ring = &e->super; else parsec_list_item_ring_push(ring, &e->super);
                }
                o->inv = vf_stamp(); parsec_lifo_chain(&lifo, ring); o->resp = vf_stamp();
            } else {
                int tr = (t >= 80);
                o->type = tr ? OP_TRYPOP : OP_POP;
                o->inv = vf_stamp();
                elt_t *e = (elt_t *)(tr ? parsec_lifo_try_pop(&lifo) : parsec_lifo_pop(&lifo));
                if (e) { o->res = e->id; }           /* read id before the response stamp: we own e now */
                o->resp = vf_stamp();
                if (e) G.mine[tid][G.nmine[tid]++] = e;   /* recycle: may be pushed again under a new id */
            }
            n++; VF_TICK();
        }
        G.nlog[tid] = n;
        vf_spinbar_wait(&G.bar);                 /* end of the history */
    }
}

static uint64_t *sigset; static size_t sigcap, nsig;
static int sig_add(uint64_t s) {
    if (!s) s = 1;
    size_t i = (size_t)(s % sigcap);
    while (sigset[i]) { if (sigset[i] == s) return 0; i = (i + 1) % sigcap; }
    if (nsig * 2 < sigcap) { sigset[i] = s; nsig++; }
    return 1;
}
static int cmp_inv(const void *a, const void *b) { uint64_t x = ((const op_t *)a)->inv, y = ((const op_t *)b)->inv; return x < y ? -1 : x > y; }

static void print_history(const char *why) {
    char buf[4096]; int p = 0;
    for (int i = 0; i < HN && p < 3800; i++) {
        p += snprintf(buf + p, sizeof buf - p, "[t%d %s", H[i].tid, opname[H[i].type]);
        for (int k = 0; k < H[i].n; k++) p += snprintf(buf + p, sizeof buf - p, " %llx", (long long)H[i].ids[k]);
        if (H[i].type >= OP_POP) p += snprintf(buf + p, sizeof buf - p, "->%llx", (long long)H[i].res);
        p += snprintf(buf + p, sizeof buf - p, " @%llu-%llu] ", (unsigned long long)H[i].inv, (unsigned long long)H[i].resp);
    }
    vf_out("{\"type\":\"history\",\"why\":\"%s\",\"ops\":\"%s\"}", why, buf);
}

static int run_hist(int argc, char **argv) {
    long nhist = vf_arg_ll(argc, argv, "--histories", 1000);
    G.nthreads = (int)vf_arg_ll(argc, argv, "--threads", 4);
    G.ops_per_thread = (int)vf_arg_ll(argc, argv, "--ops", 8);
    G.seed = (uint64_t)vf_arg_ll(argc, argv, "--seed", 1);
    wgl_budget = vf_arg_ll(argc, argv, "--budget", 3000000);
    int vary = vf_has_flag(argc, argv, "--vary");
    if (G.nthreads > MAXT) G.nthreads = MAXT;
    if (G.nthreads * G.ops_per_thread > 36) G.ops_per_thread = 36 / G.nthreads;
    int per = MAXOPS * MAXCH / G.nthreads; if (per > 12) per = 12;
    npool = per * G.nthreads;
    if (posix_memalign((void **)&pool, 128, sizeof(elt_t) * npool)) return 2;
    memset(pool, 0, sizeof(elt_t) * npool);
    for (int i = 0; i < npool; i++) { PARSEC_OBJ_CONSTRUCT(&pool[i].super, parsec_list_item_t); G.mine[i % G.nthreads][G.nmine[i % G.nthreads]++] = &pool[i]; }
    memo_cap = 1 << 22; memo = calloc(memo_cap, sizeof(memo_t));
    sigcap = 1 << 22; sigset = calloc(sigcap, sizeof(uint64_t));
    op_t hist[MAXOPS + MAXOPS * MAXCH]; H = hist;
    vf_spinbar_init(&G.bar, G.nthreads + 1);
    pthread_t th[MAXT]; vf_team_ctx_t cx[MAXT]; pthread_barrier_t pb; pthread_barrier_init(&pb, NULL, G.nthreads);
    for (int i = 0; i < G.nthreads; i++) { cx[i] = (vf_team_ctx_t){hist_worker, NULL, i, G.nthreads, &pb}; pthread_create(&th[i], NULL, vf_team_tramp, &cx[i]); }
    long lin = 0, notlin = 0, incon = 0, overlapped = 0, distinct = 0, totops = 0, maxnodes = 0, spurious_trypop = 0, samples = 0;
    int full_ops = G.ops_per_thread;
    vf_rng_t mr; vf_rng_seed(&mr, G.seed, 999);
    for (long h = 0; h < nhist && !vf_nviolations; h++) {
        G.hist_no = h;
        if (vary) G.ops_per_thread = 1 + vf_randn(&mr, full_ops);
        vf_spinbar_wait(&G.bar);   /* go */
        vf_spinbar_wait(&G.bar);   /* done */
        HN = 0;
        for (int t = 0; t < G.nthreads; t++) for (int k = 0; k < G.nlog[t]; k++) hist[HN++] = G.log[t][k];
        /* quiescent drain by the main thread, recorded as sequential pops after everything else */
        int dr = 0; elt_t *e;
        while ((e = (elt_t *)parsec_lifo_pop(&lifo)) != NULL && HN < MAXOPS + MAXOPS * MAXCH) {
            op_t *o = &hist[HN++]; o->tid = 99; o->type = OP_POP; o->n = 0; o->res = e->id; o->inv = vf_stamp(); o->resp = vf_stamp();
            /* give it back to some thread */
            int t = (int)((e - pool) % G.nthreads); G.mine[t][G.nmine[t]++] = e; dr++;
        }
        totops += HN;
        /* conservation: every pushed id popped exactly once, nothing popped that was not pushed */
        {
            int64_t pu[MAXOPS * MAXCH]; int npu = 0; int64_t po[MAXOPS * MAXCH * 2]; int npo = 0;
            for (int i = 0; i < HN; i++) {
                if (hist[i].type <= OP_CHAIN) for (int k = 0; k < hist[i].n; k++) pu[npu++] = hist[i].ids[k];
                else if (hist[i].res >= 0) po[npo++] = hist[i].res;
            }
            for (int i = 0; i < npo; i++) { int c = 0; for (int j = 0; j < npo; j++) c += (po[j] == po[i]); int f = 0; for (int j = 0; j < npu; j++) f += (pu[j] == po[i]);
                if (c != 1) { vf_violation("lifo:element-popped-twice", "history %ld: id %llx returned by %d pops", h, (long long)po[i], c); break; }
                if (f != 1) { vf_violation("lifo:popped-never-pushed", "history %ld: id %llx popped but pushed %d times", h, (long long)po[i], f); break; } }
            if (npo != npu && !vf_nviolations) vf_violation("lifo:element-lost", "history %ld: %d pushed, %d popped after drain", h, npu, npo);
            int tot = 0; for (int t = 0; t < G.nthreads; t++) tot += G.nmine[t];
            if (tot != npool && !vf_nviolations) vf_violation("lifo:pool-conservation", "history %ld: %d of %d elements accounted for", h, tot, npool);
        }
        if (vf_nviolations) { HN = HN > 64 ? 64 : HN; print_history("conservation"); break; }
        if (HN > 64) { incon++; continue; }
        /* overlap + signature */
        int ov = 0; for (int i = 0; i < HN && !ov; i++) for (int j = 0; j < HN; j++) if (hist[i].tid != hist[j].tid && hist[i].inv < hist[j].resp && hist[j].inv < hist[i].resp) { ov = 1; break; }
        qsort(hist, HN, sizeof(op_t), cmp_inv);
        uint64_t sig = 0x77;
        {   /* signature: sequence of (tid, type, inv/resp) ordered by stamp */
            struct { uint64_t s; int v; } evs[2 * 64]; int ne = 0;
            for (int i = 0; i < HN; i++) { evs[ne].s = hist[i].inv; evs[ne++].v = hist[i].tid * 16 + hist[i].type * 2; evs[ne].s = hist[i].resp; evs[ne++].v = hist[i].tid * 16 + hist[i].type * 2 + 1 + (hist[i].res >= 0 ? 8 : 0); }
            for (int i = 1; i < ne; i++) { int j = i; while (j > 0 && evs[j - 1].s > evs[j].s) { __typeof__(evs[0]) tmp = evs[j]; evs[j] = evs[j - 1]; evs[j - 1] = tmp; j--; } }
            for (int i = 0; i < ne; i++) sig = vf_mix(sig, (uint64_t)evs[i].v);
        }
        for (int i = 0; i < HN; i++) if (hist[i].type == OP_TRYPOP && hist[i].res < 0) spurious_trypop++;
        memset(memo, 0, memo_cap * sizeof(memo_t)); memo_n = 0; wgl_nodes = 0; msp = 0;
        int r = wgl(0);
        if (wgl_nodes > maxnodes) maxnodes = wgl_nodes;
        if (r == 1) { lin++; if (ov) { overlapped++; if (sig_add(sig)) distinct++; } if (ov && samples < 3) { samples++; print_history("sample"); } }
        else if (r < 0) incon++;
        else { notlin++; vf_violation("lifo:not-linearizable", "history %ld (%d ops, %d threads) has no linearization against the sequential stack", h, HN, G.nthreads); print_history("not-linearizable"); }
    }
    G.stop = 1; vf_spinbar_wait(&G.bar);
    for (int i = 0; i < G.nthreads; i++) pthread_join(th[i], NULL);
    vf_out("{\"type\":\"summary\",\"mode\":\"hist\",\"histories\":%ld,\"linearizable\":%ld,\"not_linearizable\":%ld,\"inconclusive\":%ld,"
           "\"overlapped\":%ld,\"distinct_overlapped\":%ld,\"ops\":%ld,\"max_wgl_nodes\":%ld,\"trypop_null\":%ld,\"threads\":%d,\"yield_hits\":%llu}",
           lin + notlin + incon, lin, notlin, incon, overlapped, distinct, totops, maxnodes, spurious_trypop, G.nthreads,
           (unsigned long long)vf_yield_hits(PARSEC_VERIF_SITE_LIFO));
    return vf_nviolations ? 1 : 0;
}

/* ------------------------------------------------------------------ stress mode */
typedef struct { long rounds; int nelt; uint64_t seed; volatile long ops, chains; } stress_t;
static stress_t S;
static void stress_worker(int tid, int nt, void *arg) {
    (void)arg; (void)nt; vf_rng_t rng; vf_rng_seed(&rng, S.seed, tid + 100); long n = 0, ch = 0; int me = tid + 1;
    for (long r = 0; r < S.rounds && vf_nviolations == 0; r++) {
        elt_t *e = (elt_t *)((r & 7) == 7 ? parsec_lifo_try_pop(&lifo) : parsec_lifo_pop(&lifo));
        if (!e) continue;
        if (!__sync_bool_compare_and_swap(&e->owner, 0, me)) {
            vf_violation("lifo:element-owned-twice", "element %d popped by thread %d while thread %d still owns it (round %ld)", (int)(e - pool), tid, e->owner - 1, r);
            return;
        }
        elt_t *e2 = NULL;
        if (vf_randn(&rng, 8) == 0) { e2 = (elt_t *)parsec_lifo_pop(&lifo);
            if (e2 && !__sync_bool_compare_and_swap(&e2->owner, 0, me)) { vf_violation("lifo:element-owned-twice", "element %d popped by thread %d while thread %d still owns it", (int)(e2 - pool), tid, e2->owner - 1); return; } }
        if (vf_randn(&rng, 16) == 0) sched_yield();
        e->owner = 0; __sync_synchronize();
        if (e2) { e2->owner = 0; __sync_synchronize();
            PARSEC_LIST_ITEM_SINGLETON(&e->super); PARSEC_LIST_ITEM_SINGLETON(&e2->super);
            parsec_list_item_ring_push(&e->super, &e2->super); parsec_lifo_chain(&lifo, &e->super); ch++; }
        else parsec_lifo_push(&lifo, &e->super);
        n++; if ((n & 1023) == 0) VF_TICK();
    }
    __sync_fetch_and_add(&S.ops, n); __sync_fetch_and_add(&S.chains, ch);
}
static int run_stress(int argc, char **argv) {
    int nt = (int)vf_arg_ll(argc, argv, "--threads", 8);
    S.rounds = vf_arg_ll(argc, argv, "--rounds", 200000);
    S.nelt = (int)vf_arg_ll(argc, argv, "--elements", 16);
    S.seed = (uint64_t)vf_arg_ll(argc, argv, "--seed", 1);
    npool = S.nelt;
    if (posix_memalign((void **)&pool, 128, sizeof(elt_t) * npool)) return 2;
    memset(pool, 0, sizeof(elt_t) * npool);
    for (int i = 0; i < npool; i++) { PARSEC_OBJ_CONSTRUCT(&pool[i].super, parsec_list_item_t); pool[i].id = i; parsec_lifo_push(&lifo, &pool[i].super); }
    vf_team_run(nt, stress_worker, NULL);
    int *seen = calloc(npool, sizeof(int)); int cnt = 0; elt_t *e;
    while ((e = (elt_t *)parsec_lifo_pop(&lifo)) != NULL && cnt <= 2 * npool) { seen[e - pool]++; cnt++; }
    int bad = 0; for (int i = 0; i < npool; i++) if (seen[i] != 1) bad++;
    if ((bad || cnt != npool) && !vf_nviolations)
        vf_violation("lifo:conservation", "after %ld ops on %d elements the stack holds %d elements, %d ids not exactly once", S.ops, npool, cnt, bad);
    vf_out("{\"type\":\"summary\",\"mode\":\"stress\",\"ops\":%ld,\"chains\":%ld,\"threads\":%d,\"elements\":%d,\"final\":%d,\"yield_hits\":%llu}",
           S.ops, S.chains, nt, npool, cnt, (unsigned long long)vf_yield_hits(PARSEC_VERIF_SITE_LIFO));
    return vf_nviolations ? 1 : 0;
}

int main(int argc, char **argv) {
    const char *mode = vf_arg(argc, argv, "--mode", "hist");
    int pm = (int)vf_arg_ll(argc, argv, "--yield", 0);
    vf_yield_config((uint64_t)vf_arg_ll(argc, argv, "--seed", 1), pm, (int)vf_arg_ll(argc, argv, "--yield-us", 0), 1ULL << PARSEC_VERIF_SITE_LIFO);
    PARSEC_OBJ_CONSTRUCT(&lifo, parsec_lifo_t);
    vf_heartbeat_start();
    int rc = !strcmp(mode, "stress") ? run_stress(argc, argv) : run_hist(argc, argv);
    vf_heartbeat_stop();
    return rc;
}
