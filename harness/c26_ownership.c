/* C26 — data copy ownership transfers (parsec/data.c: parsec_data_start_transfer_ownership_to_copy / _end_).
 *
 * Hook-free: the two functions only use the parsec_data_t, its device copies and the global parsec_nb_devices.  The
 * harness does NOT call parsec_init (this build registers a single device); it sizes the data object for N device
 * copies exactly as parsec_data_init() does (parsec_nb_devices = N, parsec_data_t_class.cls_sizeof += N pointers),
 * creates the data with the public parsec_data_create() (device-0 copy OWNED, owner_device 0) and attaches the other
 * copies with PARSEC_OBJ_NEW(parsec_data_copy_t) + parsec_data_copy_attach().  No device module is needed.
 *
 * The harness plays the device layer (device_gpu.c stage_in / complete_push; jdf2c for CPU writes) around the calls:
 *   src = start(data, d, mode)
 *   if src != -1 : copy[d].version = copy[src].version ; status UNDER_TRANSFER ... COMPLETE_TRANSFER
 *   if mode writes: copy[d].version = newest + bump        (W-only always bumps: the content is new)
 *   end(data, d, mode) ; the reader taken by a reading access is released later
 * A reference model (which copies hold content, at which version) replays the same sequence.
 *
 * Oracles (no more than the property):
 *   O1 transfer decision : src != -1  <=>  access reads AND (target holds no content OR target.version < newest)
 *   O2 source            : a named source exists, is not the target, holds content of the newest version
 *   O3 write => owner    : after end() of a writing access the target is OWNED and is data->owner_device
 *   O4 single owner      : at most one OWNED copy, and an OWNED copy is data->owner_device
 * Modes: enum (every sequence of (device, R|W|RW, bump) up to a length, DFS with save/restore of the copy fields),
 * random (longer sequences, read transfers left in flight and completed later, double requests on a copy in flight).
 */
#include "kit.h"
#include "parsec/parsec_config.h"
#include "parsec/parsec_internal.h"
#include "parsec/data_internal.h"
#include "parsec/data_distribution.h"
#include "parsec/mca/device/device.h"

#define MAXD 4
#define MAXL 16
#define R_ PARSEC_FLOW_ACCESS_READ
#define W_ PARSEC_FLOW_ACCESS_WRITE

extern uint32_t parsec_nb_devices;

static int ND;
static parsec_data_t *D;
static parsec_data_copy_t *C[MAXD];
static parsec_data_collection_t fake_dc;
/* reference model */
static int has[MAXD];             /* copy holds content (a completed transfer or a write reached it) */
static int inflight[MAXD];        /* read transfer started, not ended (random mode) */
static int inflight_mode[MAXD];
static int held_readers[MAXD];

typedef struct { int8_t owner; struct { parsec_data_coherency_t st; uint32_t ver; int32_t rd; parsec_data_status_t ts; } c[MAXD]; int has[MAXD]; } snap_t;

/* counters */
static long T_seq, T_steps, T_nontrivial, T_transfers, T_writes, T_reads, T_owner_reads, T_inflight, T_double, T_known_class;
static long T_by_mode[3], T_src_hist[MAXD + 1];
#define NKEYS 32
static struct { char key[96]; long n; int printed; } K[NKEYS]; static int nk;

static char seqtxt[MAXL * 24 + 64]; static int seqlen_txt;
static int cur_depth; static int cur_steps[MAXL * 2][3];

static const char *st_name(parsec_data_coherency_t s) { return s == PARSEC_DATA_COHERENCY_INVALID ? "I" : s == PARSEC_DATA_COHERENCY_OWNED ? "O" : s == PARSEC_DATA_COHERENCY_SHARED ? "S" : s == PARSEC_DATA_COHERENCY_EXCLUSIVE ? "E" : "?"; }
static const char *mode_name(int m) {
    if (m & 64) return "R(start)"; if (m & 128) return "R(complete)"; if (m & 256) return "R(again)";
    return m == R_ ? "R" : m == W_ ? "W" : "RW";
}

static void describe_seq(char *buf, size_t n) {
    size_t o = 0;
    for (int i = 0; i < cur_depth && o + 16 < n; i++) o += snprintf(buf + o, n - o, "d%d:%s%s ", cur_steps[i][0], mode_name(cur_steps[i][1]), cur_steps[i][2] ? "+" : "");
    buf[o] = 0;
}
static void describe_state(char *buf, size_t n) {
    size_t o = snprintf(buf, n, "owner=%d", (int)D->owner_device);
    for (int d = 0; d < ND && o + 24 < n; d++) o += snprintf(buf + o, n - o, " c%d=%s/v%u/r%d%s", d, st_name(C[d]->coherency_state), C[d]->version, C[d]->readers, has[d] ? "" : "/empty");
}

static void violate(const char *key, const char *fmt, ...) {
    int i; for (i = 0; i < nk; i++) if (!strcmp(K[i].key, key)) break;
    if (i == nk) { if (nk == NKEYS) return; snprintf(K[nk].key, sizeof K[nk].key, "%s", key); K[nk].n = 0; K[nk].printed = 0; nk++; }
    K[i].n++;
    if (K[i].printed) return;     /* one witness per key */
    K[i].printed = 1;
    char buf[300], sq[400], stt[200]; va_list ap; va_start(ap, fmt); vsnprintf(buf, sizeof buf, fmt, ap); va_end(ap);
    describe_seq(sq, sizeof sq); describe_state(stt, sizeof stt);
    vf_violation(key, "%s | devices=%d sequence: %s| state after the call: %s", buf, ND, sq, stt);
}

static uint32_t newest(void) { uint32_t m = 0; for (int d = 0; d < ND; d++) if (has[d] && C[d]->version > m) m = C[d]->version; return m; }

static void check_owners(const char *when) {
    int no = 0, who = -1;
    for (int d = 0; d < ND; d++) if (C[d]->coherency_state == PARSEC_DATA_COHERENCY_OWNED) { no++; who = d; }
    if (no > 1) violate("single-owner:two-owned-copies", "%d copies are OWNED %s", no, when);
    else if (no == 1 && D->owner_device != who) violate("single-owner:owned-copy-is-not-owner-device", "copy %d is OWNED but owner_device is %d %s", who, (int)D->owner_device, when);
}

/* ---- the calls, with the device layer's part in between ---- */
static int do_start(int d, int mode, uint32_t *nw_out) {
    uint32_t nw = newest();
    int expect = (mode & R_) && (!has[d] || C[d]->version < nw);
    int n_owned = 0; for (int i = 0; i < ND; i++) n_owned += C[i]->coherency_state == PARSEC_DATA_COHERENCY_OWNED;
    int owner_before = D->owner_device;
    int owner_demoted = n_owned == 0 && owner_before >= 0 && owner_before < ND && C[owner_before]->coherency_state == PARSEC_DATA_COHERENCY_SHARED && has[owner_before];
    parsec_data_coherency_t tst = C[d]->coherency_state; uint32_t tver = C[d]->version;
    if (owner_before == d) T_owner_reads += (mode == R_);
    int src = parsec_data_start_transfer_ownership_to_copy(D, (uint8_t)d, (uint8_t)mode);
    T_steps++; T_by_mode[mode == R_ ? 0 : mode == W_ ? 1 : 2]++;
    if (src != -1 && !expect)
        violate(mode & R_ ? "transfer-decision:transfer-for-uptodate-target" : "transfer-decision:transfer-for-write-only-access",
                "start(dev %d, %s) names source %d although the target (%s v%u) is up to date (newest v%u)", d, mode_name(mode), src, st_name(tst), tver, nw);
    if (src == -1 && expect) {
        const char *cls = !has[d] ? "target-holds-no-content" : owner_demoted ? "owner-copy-demoted-to-shared" : n_owned ? "newer-owned-copy-exists" : "other";
        char key[96]; snprintf(key, sizeof key, "transfer-decision:no-transfer-for-stale-target:%s", cls);
        if (owner_demoted) T_known_class++;
        violate(key, "start(dev %d, %s) requests no transfer although the target (%s v%u) is older than the newest content v%u (owner_device %d)",
                d, mode_name(mode), st_name(tst), tver, nw, owner_before);
    }
    if (src != -1) {
        T_transfers++;
        if (src < 0 || src >= ND || src == d || C[src] == NULL) { violate("source:not-a-copy", "start(dev %d, %s) names source %d", d, mode_name(mode), src); src = -1; }
        else {
            T_src_hist[src]++;
            if (expect && (!has[src] || C[src]->version != nw))
                violate(!has[src] ? "source:holds-no-content" : "source:not-newest", "start(dev %d, %s) names source %d (v%u, %s) but the newest content is v%u",
                        d, mode_name(mode), src, C[src]->version, has[src] ? "filled" : "empty", nw);
        }
    }
    *nw_out = nw;
    return src;
}

static void do_client_and_end(int d, int mode, int bump, int src, uint32_t nw) {
    if (src != -1) {   /* device_gpu.c stage_in: version assigned preemptively, copy under transfer until complete_push */
        C[d]->version = C[src]->version;
        C[d]->data_transfer_status = PARSEC_DATA_STATUS_UNDER_TRANSFER;
    }
    if (mode & W_) C[d]->version = nw + (uint32_t)bump;
    C[d]->data_transfer_status = PARSEC_DATA_STATUS_COMPLETE_TRANSFER;
    if (src != -1 || (mode & W_)) has[d] = 1;
    parsec_data_end_transfer_ownership_to_copy(D, (uint8_t)d, (uint8_t)mode);
    if (mode & W_) {
        T_writes++;
        if (C[d]->coherency_state != PARSEC_DATA_COHERENCY_OWNED) violate("write-makes-owner:target-not-owned", "after end(dev %d, %s) the target is %s", d, mode_name(mode), st_name(C[d]->coherency_state));
        if (D->owner_device != d) violate("write-makes-owner:owner-device-not-updated", "after end(dev %d, %s) owner_device is %d", d, mode_name(mode), (int)D->owner_device);
    } else T_reads++;
    check_owners("after end");
}

static void push_step(int d, int mode, int bump) {
    if (cur_depth < MAXL * 2) { cur_steps[cur_depth][0] = d; cur_steps[cur_depth][1] = mode; cur_steps[cur_depth][2] = bump; cur_depth++; }
}
static void step_seq(int d, int mode, int bump) {
    uint32_t nw; push_step(d, mode, bump);
    int src = do_start(d, mode, &nw);
    check_owners("after start");
    do_client_and_end(d, mode, bump, src, nw);
    if (mode & R_) C[d]->readers--;      /* the task pops: the reader taken by start() is released */
}

/* ---- state handling ---- */
static void reset_state(int variant) {
    for (int d = 0; d < ND; d++) {
        C[d]->coherency_state = PARSEC_DATA_COHERENCY_INVALID; C[d]->version = 0; C[d]->readers = 0;
        C[d]->data_transfer_status = PARSEC_DATA_STATUS_NOT_TRANSFER; has[d] = 0; inflight[d] = 0; held_readers[d] = 0;
    }
    D->owner_device = 0;
    if (variant == 0) { C[0]->coherency_state = PARSEC_DATA_COHERENCY_OWNED; has[0] = 1; }   /* parsec_data_create(): collection data */
    /* variant 1: arena copy (parsec_arena_get_copy): device-0 copy INVALID v0, owner_device 0; the first access must write */
    cur_depth = 0;
}
static void save(snap_t *s) { s->owner = D->owner_device; for (int d = 0; d < ND; d++) { s->c[d].st = C[d]->coherency_state; s->c[d].ver = C[d]->version; s->c[d].rd = C[d]->readers; s->c[d].ts = C[d]->data_transfer_status; s->has[d] = has[d]; } }
static void restore(const snap_t *s) { D->owner_device = s->owner; for (int d = 0; d < ND; d++) { C[d]->coherency_state = s->c[d].st; C[d]->version = s->c[d].ver; C[d]->readers = s->c[d].rd; C[d]->data_transfer_status = s->c[d].ts; has[d] = s->has[d]; } }

/* ---- enumerator ---- */
static const int MODES[4][2] = {{R_, 0}, {W_, 1}, {R_ | W_, 0}, {R_ | W_, 1}};
static int enum_len; static long nt_transfers_path, nt_writes_path;
static int nsamples = 3; static uint64_t sample_mod = 1000;

static void emit_sample(void) {
    char sq[400], stt[200]; describe_seq(sq, sizeof sq); describe_state(stt, sizeof stt);
    vf_out("{\"type\":\"sample\",\"devices\":%d,\"sequence\":\"%s\",\"final\":\"%s\"}", ND, sq, stt);
}

static void dfs(int depth, int first_must_write) {
    snap_t s; save(&s);
    for (int d = 0; d < ND; d++) for (int m = 0; m < 4; m++) {
        if (depth == 0 && first_must_write && MODES[m][0] != W_) continue;
        long t0 = T_transfers, w0 = T_writes;
        step_seq(d, MODES[m][0], MODES[m][1]);
        long dt = T_transfers - t0, dw = T_writes - w0;
        nt_transfers_path += dt; nt_writes_path += dw;
        T_seq++;
        if (depth + 1 >= 3 && nt_transfers_path > 0 && nt_writes_path > 0) {
            T_nontrivial++;
            if (nsamples > 0 && depth + 1 == enum_len) {   /* a few leaves spread over the tree, chosen by a hash of the sequence */
                uint64_t hh = 7; for (int i = 0; i < cur_depth; i++) hh = vf_mix(hh, cur_steps[i][0] * 64 + cur_steps[i][1] * 2 + cur_steps[i][2]);
                if (hh % sample_mod == 1) { nsamples--; emit_sample(); }
            }
        }
        if ((T_seq & 0xfffff) == 0) VF_TICK();
        if (depth + 1 < enum_len) dfs(depth + 1, 0);
        nt_transfers_path -= dt; nt_writes_path -= dw;
        restore(&s); cur_depth = depth;
    }
}

/* enumerate only the subtree below a prefix (work split between processes): prefix index in base (4*ND) digits */
static void zero_counters(void) {
    T_seq = T_steps = T_nontrivial = T_transfers = T_writes = T_reads = T_owner_reads = T_inflight = T_double = T_known_class = 0;
    memset(T_by_mode, 0, sizeof T_by_mode); memset(T_src_hist, 0, sizeof T_src_hist);
    for (int i = 0; i < nk; i++) K[i].n = 0;   /* the (short) first witness of each key stays printed, the hits are recounted */
}
static void run_enum(int len, int variant, long part, long nparts) {
    int br = 4 * ND;
    /* pre-pass over the short sequences so that the witness printed for a key is a short one; its counts are discarded */
    if (len > 4) { int ns = nsamples; nsamples = 0; enum_len = 4; reset_state(variant); nt_transfers_path = nt_writes_path = 0; dfs(0, variant == 1); nsamples = ns; zero_counters(); }
    enum_len = len;
    sample_mod = 1; for (int i = 0; i < len; i++) sample_mod *= (uint64_t)br; sample_mod = sample_mod / (nparts > 1 ? 6 * (uint64_t)nparts : 6) + 1;
    if (nparts <= 1 || len < 3) { reset_state(variant); nt_transfers_path = nt_writes_path = 0; if (part == 0) dfs(0, variant == 1); return; }
    /* split on the first two steps: br*br prefixes dealt round-robin; sequences of length 1 and 2 are counted by part 0 */
    long idx = 0;
    for (int a = 0; a < br; a++) for (int b = 0; b < br; b++, idx++) {
        if (variant == 1 && MODES[a % 4][0] != W_) continue;
        if (idx % nparts != part) continue;
        reset_state(variant); nt_transfers_path = nt_writes_path = 0;
        long t0 = T_transfers, w0 = T_writes;
        step_seq(a / 4, MODES[a % 4][0], MODES[a % 4][1]);
        step_seq(b / 4, MODES[b % 4][0], MODES[b % 4][1]);
        nt_transfers_path = T_transfers - t0; nt_writes_path = T_writes - w0;
        T_seq++;      /* the length-2 sequence itself */
        dfs(2, 0);
    }
    if (part == 0) {   /* the length-1 sequences */
        for (int a = 0; a < br; a++) { if (variant == 1 && MODES[a % 4][0] != W_) continue; reset_state(variant); step_seq(a / 4, MODES[a % 4][0], MODES[a % 4][1]); T_seq++; }
    }
}

/* ---- random mode: longer sequences, read transfers in flight, double requests ---- */
static uint64_t *hashes; static long nhashes, caphashes;
static void run_random(long nseq, uint64_t seed, int maxlen, int owner_read_permille) {
    vf_rng_t rng;
    for (long q = 0; q < nseq; q++) {
        vf_rng_seed(&rng, seed, (uint64_t)q);
        int variant = vf_chance(&rng, 150);
        reset_state(variant);
        int len = 3 + vf_randn(&rng, maxlen - 2), p_split = vf_chance(&rng, 500) ? 0 : vf_randn(&rng, 700);
        uint64_t h = vf_mix(ND, variant); long t0 = T_transfers, w0 = T_writes; int nin = 0, pend_src[MAXD]; uint32_t pend_nw[MAXD];
        for (int i = 0; i < len; i++) {
            /* complete a transfer in flight? */
            if (nin && vf_chance(&rng, 400)) {
                int d; do d = vf_randn(&rng, ND); while (!inflight[d]);
                push_step(d, 128 | R_, 0);
                do_client_and_end(d, R_, 0, pend_src[d], pend_nw[d]); inflight[d] = 0; nin--; h = vf_mix(h, 500 + d);
                continue;
            }
            int d = vf_randn(&rng, ND), m = vf_randn(&rng, 4), mode = MODES[m][0], bump = MODES[m][1];
            if (i == 0 && variant == 1) { mode = W_; bump = 1; }
            if (mode == R_ && D->owner_device == d && !vf_chance(&rng, owner_read_permille)) mode = R_ | W_;   /* down-weight the trigger of the recorded finding */
            if (mode & W_) {    /* a writer runs alone: complete everything in flight, release every reader (WAR is the user's job) */
                for (int e = 0; e < ND; e++) if (inflight[e]) { push_step(e, 128 | R_, 0); do_client_and_end(e, R_, 0, pend_src[e], pend_nw[e]); inflight[e] = 0; nin--; }
                for (int e = 0; e < ND; e++) { C[e]->readers -= held_readers[e]; held_readers[e] = 0; }
                step_seq(d, mode, bump); h = vf_mix(h, d * 8 + m);
                continue;
            }
            if (inflight[d]) {   /* double request on a copy already under transfer: only the reader is reserved (device_gpu.c) */
                uint32_t nw; push_step(d, 256 | R_, 0);
                (void)do_start(d, R_, &nw); held_readers[d]++; T_double++; h = vf_mix(h, 700 + d);
                continue;
            }
            if (vf_chance(&rng, p_split)) {
                uint32_t nw; push_step(d, 64 | R_, 0);
                int src = do_start(d, R_, &nw); check_owners("after start");
                if (src != -1) {   /* transfer left in flight: the old content of the target is being replaced */
                    C[d]->version = C[src]->version; C[d]->data_transfer_status = PARSEC_DATA_STATUS_UNDER_TRANSFER; has[d] = 0;
                    inflight[d] = 1; pend_src[d] = src; pend_nw[d] = nw; nin++; held_readers[d]++; T_inflight++; h = vf_mix(h, 600 + d);
                } else { do_client_and_end(d, R_, 0, -1, nw); held_readers[d]++; h = vf_mix(h, 650 + d); }
                continue;
            }
            step_seq(d, R_, 0); h = vf_mix(h, d * 8 + m);
            if (vf_chance(&rng, 300)) for (int e = 0; e < ND; e++) if (!inflight[e]) { C[e]->readers -= held_readers[e]; held_readers[e] = 0; }
        }
        for (int e = 0; e < ND; e++) if (inflight[e]) { do_client_and_end(e, R_, 0, pend_src[e], pend_nw[e]); inflight[e] = 0; }
        T_seq++;
        if (cur_depth >= 3 && T_transfers > t0 && T_writes > w0) {
            T_nontrivial++;
            if (nhashes == caphashes) { caphashes = caphashes ? caphashes * 2 : 4096; hashes = realloc(hashes, caphashes * sizeof *hashes); }
            hashes[nhashes++] = h;
            if (nsamples > 0 && (q % 977) == 5) { nsamples--; emit_sample(); }
        }
        if ((q & 0x3fff) == 0) VF_TICK();
    }
}
static int cmp_u64(const void *a, const void *b) { uint64_t x = *(const uint64_t *)a, y = *(const uint64_t *)b; return x < y ? -1 : x > y; }

int main(int argc, char **argv) {
    const char *mode = vf_arg(argc, argv, "--mode", "enum");
    ND = (int)vf_arg_ll(argc, argv, "--devices", 2);
    int len = (int)vf_arg_ll(argc, argv, "--len", 5), variant = (int)vf_arg_ll(argc, argv, "--variant", 0);
    long part = vf_arg_ll(argc, argv, "--part", 0), nparts = vf_arg_ll(argc, argv, "--nparts", 1);
    long nseq = vf_arg_ll(argc, argv, "--sequences", 20000); uint64_t seed = (uint64_t)vf_arg_ll(argc, argv, "--seed", 1);
    int owner_read = (int)vf_arg_ll(argc, argv, "--owner-read-permille", 1000);
    const char *hashfile = vf_arg(argc, argv, "--hashfile", NULL);
    if (ND < 2 || ND > MAXD || len < 1 || len > MAXL) { fprintf(stderr, "bad arguments\n"); return 2; }
    /* what parsec_data_init() does once the devices are known */
    parsec_nb_devices = (uint32_t)ND;
    parsec_data_t_class.cls_sizeof += sizeof(parsec_data_copy_t *) * parsec_nb_devices;
    fake_dc.default_dtt = PARSEC_DATATYPE_NULL;
    static double payload[8];
    parsec_data_t *holder = NULL;
    D = parsec_data_create(&holder, &fake_dc, 42, payload, sizeof payload, 0);
    if (!D || D->device_copies[0] == NULL || D->owner_device != 0 || D->device_copies[0]->coherency_state != PARSEC_DATA_COHERENCY_OWNED) { fprintf(stderr, "unexpected initial state from parsec_data_create\n"); return 2; }
    C[0] = D->device_copies[0];
    for (int d = 1; d < ND; d++) {
        C[d] = PARSEC_OBJ_NEW(parsec_data_copy_t);
        if (PARSEC_SUCCESS != parsec_data_copy_attach(D, C[d], (uint8_t)d)) { fprintf(stderr, "attach failed\n"); return 2; }
        if (C[d]->coherency_state != PARSEC_DATA_COHERENCY_INVALID) { fprintf(stderr, "new copy not INVALID\n"); return 2; }
    }
    vf_heartbeat_start();
    if (!strcmp(mode, "enum")) run_enum(len, variant, part, nparts);
    else run_random(nseq, seed, len, owner_read);
    vf_heartbeat_stop();
    long distinct = T_nontrivial;
    if (!strcmp(mode, "random")) {
        if (nhashes) qsort(hashes, nhashes, sizeof *hashes, cmp_u64);
        distinct = 0; for (long i = 0; i < nhashes; i++) if (i == 0 || hashes[i] != hashes[i - 1]) hashes[distinct++] = hashes[i];
        if (hashfile) { FILE *f = fopen(hashfile, "wb"); if (f) { if (distinct) fwrite(hashes, sizeof *hashes, distinct, f); fclose(f); } }
    }
    char kb[NKEYS * 120 + 8]; size_t o = 0; kb[0] = 0;
    for (int i = 0; i < nk; i++) o += snprintf(kb + o, sizeof kb - o, "%s\"%s\":%ld", i ? "," : "", K[i].key, K[i].n);
    vf_out("{\"type\":\"summary\",\"mode\":\"%s\",\"devices\":%d,\"len\":%d,\"variant\":%d,\"sequences\":%ld,\"nontrivial\":%ld,\"distinct_nontrivial\":%ld,\"calls\":%ld,"
           "\"transfers_requested\":%ld,\"writes\":%ld,\"reads\":%ld,\"read_only_by_owner\":%ld,\"left_in_flight\":%ld,\"double_requests\":%ld,"
           "\"modes\":{\"R\":%ld,\"W\":%ld,\"RW\":%ld},\"sources\":[%ld,%ld,%ld,%ld],\"oracle_hits\":{%s},\"violations\":%d}",
           mode, ND, len, variant, T_seq, T_nontrivial, distinct, T_steps, T_transfers, T_writes, T_reads, T_owner_reads, T_inflight, T_double,
           T_by_mode[0], T_by_mode[1], T_by_mode[2], T_src_hist[0], T_src_hist[1], T_src_hist[2], T_src_hist[3], kb, vf_nviolations);
    fflush(stdout);
    return vf_nviolations ? 1 : 0;
}
