/* C38: MCA runtime parameters resolve by the documented precedence
 *   override (set API) > environment (--mca / PARSEC_MCA_<name>, primary name or synonym) > parameter file > default.
 * One process = one configuration of sources (the MCA system reads its files once and caches values).
 * The process environment (PARSEC_MCA_*, PARSEC_MCA_mca_param_files, HOME) and the parsec arguments
 * (argv[1..], passed verbatim) are prepared by lib/checks/c38.py, which also holds the precedence model.
 * The harness registers one int, one size_t and one string parameter (independent names), optional
 * synonyms, and prints what the real lookups return at four stages:
 *   reg  value returned by the registration call (synonyms not yet known)
 *   l1   lookup + lookup_source after the synonyms are registered
 *   l2   after parsec_mca_param_set_* (when VF_OVR=1)
 *   l3   after parsec_mca_param_unset
 * Control (environment): VF_PATH=init|low, VF_NSYN=0..2, VF_SYNDEP=0|1, VF_OVR=0|1, VF_OVR_INT, VF_OVR_SZ, VF_OVR_STR,
 * VF_DEF_INT, VF_DEF_SZ, VF_DEF_STR (unset = NULL default), VF_REGVAL=0|1 (ask the string registration for the current value). */
#include "parsec/parsec_config.h"
#include "parsec/parsec_internal.h"
#include "parsec/runtime.h"
#include "parsec/constants.h"
#include "parsec/utils/mca_param.h"
#include "parsec/utils/mca_param_cmd_line.h"
#include "parsec/utils/cmd_line.h"
#include "parsec/utils/argv.h"
#include "parsec/utils/installdirs.h"
#include "parsec/utils/output.h"
#include "parsec/utils/show_help.h"
#include "parsec/utils/parsec_environ.h"
#include <mpi.h>
#include "kit.h"

extern char **environ;

static void hex(char *dst, size_t n, const char *s) {
    if (!s) { snprintf(dst, n, "null"); return; }
    size_t k = 0; dst[k++] = '"';
    for (; *s && k + 4 < n; s++) k += (size_t)snprintf(dst + k, n - k, "%02x", (unsigned char)*s);
    dst[k++] = '"'; dst[k] = 0;
}
static const char *genv(const char *k, const char *d) { const char *v = getenv(k); return v ? v : d; }

static int idx_int, idx_sz, idx_str;
static char *big1, *big2;

static void stage(const char *name) {
    int vi = -12345, rc1, rc2, rc3; size_t vs = 12345; char *vstr = (char *)"<unset>";
    parsec_mca_param_source_t s1 = MCA_PARAM_SOURCE_MAX, s2 = MCA_PARAM_SOURCE_MAX, s3 = MCA_PARAM_SOURCE_MAX; char *f1 = NULL, *f2 = NULL, *f3 = NULL;
    rc1 = parsec_mca_param_lookup_int(idx_int, &vi);
    rc2 = parsec_mca_param_lookup_sizet(idx_sz, &vs);
    rc3 = parsec_mca_param_lookup_string(idx_str, &vstr);
    int q1 = parsec_mca_param_lookup_source(idx_int, &s1, &f1);
    int q2 = parsec_mca_param_lookup_source(idx_sz, &s2, &f2);
    int q3 = parsec_mca_param_lookup_source(idx_str, &s3, &f3);
    hex(big1, 70000, rc3 == PARSEC_SUCCESS ? vstr : "<lookup failed>");
    char hf1[1200], hf2[1200], hf3[1200]; hex(hf1, sizeof hf1, f1); hex(hf2, sizeof hf2, f2); hex(hf3, sizeof hf3, f3);
    vf_out("{\"type\":\"stage\",\"stage\":\"%s\",\"rc\":[%d,%d,%d,%d,%d,%d],\"int\":%d,\"sz\":\"%zu\",\"str\":%s,\"src\":[%d,%d,%d],\"file\":[%s,%s,%s]}",
           name, rc1, rc2, rc3, q1, q2, q3, vi, vs, big1, (int)s1, (int)s2, (int)s3, hf1, hf2, hf3);
    if (rc3 == PARSEC_SUCCESS && vstr) free(vstr);
}

int main(int argc, char **argv) {
    const char *path = genv("VF_PATH", "init");
    int nsyn = atoi(genv("VF_NSYN", "0")), syndep = atoi(genv("VF_SYNDEP", "0")), ovr = atoi(genv("VF_OVR", "0")), regval = atoi(genv("VF_REGVAL", "1"));
    parsec_context_t *ctx = NULL;
    big1 = malloc(70000); big2 = malloc(70000);
    int pargc = argc - 1; char **pargv = argv + 1;

    if (!strcmp(path, "init")) {
        int prov; MPI_Init_thread(NULL, NULL, MPI_THREAD_SERIALIZED, &prov);
        ctx = parsec_init(1, &pargc, &pargv);
        if (!ctx) { vf_out("{\"type\":\"summary\",\"ok\":0,\"why\":\"parsec_init returned NULL\"}"); return 3; }
    } else {
        /* the lower-level functions parsec_init itself uses, in the same order */
        parsec_installdirs_open();
        parsec_mca_param_init();
        parsec_output_init();
        parsec_show_help_init();
        parsec_cmd_line_t *cmd = PARSEC_OBJ_NEW(parsec_cmd_line_t);
        parsec_mca_cmd_line_setup(cmd);
        int rc = parsec_cmd_line_parse(cmd, true, argc, argv);     /* argv[0] is the program name here */
        char **ctx_env = NULL;
        int rc2 = parsec_mca_cmd_line_process_args(cmd, &ctx_env, &environ);
        /* report what --mca produced (context environment), then install it as parsec_init does */
        int n = parsec_argv_count(ctx_env);
        for (int i = 0; i < n; i++) { hex(big1, 70000, ctx_env[i]); vf_out("{\"type\":\"ctxenv\",\"entry\":%s}", big1); }
        for (int i = 0; i < n; i++) {
            char *e = strdup(ctx_env[i]), *eq = strchr(e, '=');
            if (eq) { *eq = 0; parsec_setenv(e, eq + 1, true, &environ); }
            free(e);
        }
        parsec_argv_free(ctx_env);
        vf_out("{\"type\":\"lowlevel\",\"parse_rc\":%d,\"process_rc\":%d,\"ctxenv\":%d,\"mca_insts\":%d,\"gmca_insts\":%d}", rc, rc2, n,
               parsec_cmd_line_get_ninsts(cmd, "mca"), parsec_cmd_line_get_ninsts(cmd, "gmca"));
        PARSEC_OBJ_RELEASE(cmd);
    }

    /* ---- registration (synonyms are not known yet: only the primary names can match) */
    int ri = -1; size_t rs = 1; char *rstr = (char *)"<none>";
    const char *dstr = getenv("VF_DEF_STR");
    idx_int = parsec_mca_param_reg_int_name("vf", "pint", "C38 int probe", false, false, atoi(genv("VF_DEF_INT", "11")), &ri);
    idx_sz  = parsec_mca_param_reg_sizet_name("vf", "psz", "C38 size_t probe", false, false, (size_t)strtoull(genv("VF_DEF_SZ", "22"), NULL, 0), &rs);
    idx_str = parsec_mca_param_reg_string_name("vf", "pstr", "C38 string probe", false, false, dstr, regval ? &rstr : NULL);
    hex(big1, 70000, regval ? rstr : "<not asked>");
    vf_out("{\"type\":\"stage\",\"stage\":\"reg\",\"idx\":[%d,%d,%d],\"int\":%d,\"sz\":\"%zu\",\"str\":%s}", idx_int, idx_sz, idx_str, ri, rs, big1);
    if (idx_int < 0 || idx_sz < 0 || idx_str < 0) { vf_out("{\"type\":\"summary\",\"ok\":0,\"why\":\"registration failed\"}"); return 3; }
    for (int k = 1; k <= nsyn; k++) {
        char n1[32], n2[32], n3[32]; snprintf(n1, sizeof n1, "pint_syn%d", k); snprintf(n2, sizeof n2, "psz_syn%d", k); snprintf(n3, sizeof n3, "pstr_syn%d", k);
        int a = parsec_mca_param_reg_syn_name(idx_int, "vfs", n1, syndep && k == 1);
        int b = parsec_mca_param_reg_syn_name(idx_sz, "vfs", n2, syndep && k == 1);
        int c = parsec_mca_param_reg_syn_name(idx_str, "vfs", n3, syndep && k == 1);
        if (a != PARSEC_SUCCESS || b != PARSEC_SUCCESS || c != PARSEC_SUCCESS) vf_out("{\"type\":\"violation\",\"key\":\"reg_syn:rc\",\"text\":\"synonym registration failed %d %d %d\"}", a, b, c);
    }
    stage("l1");
    if (ovr) {
        parsec_mca_param_set_int(idx_int, atoi(genv("VF_OVR_INT", "55")));
        parsec_mca_param_set_sizet(idx_sz, (size_t)strtoull(genv("VF_OVR_SZ", "66"), NULL, 0));
        char *o = strdup(genv("VF_OVR_STR", "ovr")); parsec_mca_param_set_string(idx_str, o); memset(o, 'Z', strlen(o)); free(o); /* the API copies its argument */
        stage("l2");
        /* setting twice replaces */
        parsec_mca_param_unset(idx_int); parsec_mca_param_unset(idx_sz); parsec_mca_param_unset(idx_str);
        stage("l3");
    }
    /* a second lookup must see the same thing (file values are cached on first use) */
    stage("l4");
    /* the derived name helpers */
    { char *e = parsec_mca_param_env_var("vf_pint"); hex(big1, 70000, e); vf_out("{\"type\":\"envname\",\"name\":%s,\"find\":[%d,%d,%d]}", big1,
        parsec_mca_param_find("vf", NULL, "pint"), parsec_mca_param_find("vf", NULL, "psz"), parsec_mca_param_find("vf", NULL, "pstr")); free(e); }
    if (ctx) { parsec_fini(&ctx); MPI_Finalize(); }
    vf_out("{\"type\":\"summary\",\"ok\":1,\"path\":\"%s\",\"nsyn\":%d,\"ovr\":%d}", path, nsyn, ovr);
    return 0;
}
