/* C11 — four-counter distributed termination detector (mca/termdet/fourcounter).
 *
 * E5: N simulated ranks inside ONE process drive the REAL module code: one fake parsec_context_t per rank
 * (my_rank, nb_nodes), one registered taskpool per rank, parsec_ce.send_am replaced by a test-owned network of FIFO
 * channels, control messages delivered through the real parsec_termdet_fourcounter_msg_dispatch (tp_id translated to
 * the destination's id because all ranks share one registry here).
 *
 * The harness plays the runtime (the client of the detector) following remote_dep.c / remote_dep_mpi.c / jdf2c:
 *   before ready : monitor_taskpool, load changes (startup pending actions, optional tasks), then taskpool_ready
 *   startup      : addto_nb_tasks(+k) ; addto_runtime_actions(-1)
 *   task         : per destination [first: addto_runtime_actions(+1)] outgoing_message_start ; local successors
 *                  addto_nb_tasks(+j) ; addto_nb_tasks(-1) ; later (send complete) addto_runtime_actions(-1)
 *   receive      : incoming_message_start ; (eager: at once / rendez-vous: later) addto_runtime_actions(+1) ;
 *                  addto_nb_tasks(+k) ; incoming_message_end ; optional forwards (outgoing_message_start) ;
 *                  addto_runtime_actions(-1) (at once or at send completion)
 *   application messages for a not-yet-ready rank are parked (remote_dep's noobj fifo) until it is ready; control
 *   messages for it go through the module's own delayed-message path.
 * A seeded scheduler picks among the enabled events; channels can be held (adversarial delay) and stay FIFO per
 * (pair) or per (pair, tag) as MPI guarantees.
 *
 * Oracles. safety (inside every termination callback): callback at most once per rank; every rank's shadow load is
 * zero; no application message outstanding (sent-not-delivered, parked, or started-not-ended).  Shadows are updated
 * BEFORE the module call in both directions.  bounded liveness: once every rank is ready and idle and no application
 * message is outstanding, every rank must report termination within LIVE_K*N*(log2 N+1) control deliveries
 * (livelock) and the network must not run dry before that (deadlock).
 */
#include "kit.h"
#include "parsec/parsec_config.h"
#include "parsec/parsec_internal.h"
#include "parsec/runtime.h"
#include "parsec/execution_stream.h"
#include "parsec/mca/termdet/termdet.h"
#include "parsec/mca/termdet/fourcounter/termdet_fourcounter.h"
#include "parsec/parsec_comm_engine.h"
#include <mpi.h>
#include <signal.h>

#define MAXN   8
#define MAXRDV 64
#define LIVE_K 64
#define TRACE_MAX 6000

enum { K_APP = 0, K_CTL = 1 };
typedef struct msg_s { struct msg_s *next; int src, dst, kind, forwards; size_t size; unsigned char payload[32]; } msg_t;
typedef struct { msg_t *head, *tail; int len; long held_until; } chan_t;

typedef struct {
    int registered, monitored, ready, terminated, term_calls;
    volatile int tasks, actions;         /* shadow of unannounced load (tasks, pending actions) */
    int startup, sendtok;                /* kinds of action tokens held */
    msg_t *parked_head, *parked_tail;    /* application messages received before ready */
    msg_t *rdv[MAXRDV]; int nrdv;        /* receives started (incoming_message_start) and not ended */
    int w_ready;                         /* weight of the events that bring this rank to ready */
} rank_t;

typedef struct {
    int N, unified, task_budget, msg_budget;
    int p_send, p_send2, p_spawn, p_rdv, p_nopend, p_forward, p_hold, hold_max, p_pretask, p_setapi, p_late, p_keepact;
    int w_ctl, w_app, w_work;
} sp_t;

static sp_t P;
static rank_t R[MAXN];
static chan_t CH[MAXN][MAXN][2];
static parsec_context_t *fctx[MAXN];
static parsec_taskpool_t *ftp[MAXN];
static __thread int cur_rank = -1;
static volatile int inflight_app = 0;   /* sent and not yet completely received */
static int n_in_channel, n_parked, n_started;
static long step_no;
static vf_rng_t rng;
static uint64_t sched_hash, sched_seed;
static int sched_failed;
static long waves, reactivations, delayed_ctl, parked_cnt, holds_cnt, rdv_cnt, late_lookup;
static char trace[TRACE_MAX + 64]; static int trace_len; static int verbose;

/* totals */
static long T_sched, T_nontrivial, T_events, T_waves, T_react, T_delayed, T_parked, T_holds, T_rdv, T_latelookup,
            T_ctl, T_app, T_tasks, T_forwards, T_nopend, T_leftover_ctl, T_callbacks, T_max_waves, T_max_postq, T_unified, T_pertag,
            T_preready_ctl_unreg;
static long T_byN[MAXN + 1];
static uint64_t *hashes; static long nhashes, caphashes;

static void tr(const char *fmt, ...) {
    if (trace_len >= TRACE_MAX) return;
    va_list ap; va_start(ap, fmt); trace_len += vsnprintf(trace + trace_len, 60, fmt, ap); va_end(ap);
    if (trace_len < TRACE_MAX) trace[trace_len++] = ' ';
    trace[trace_len] = 0;
}
static void ev_hash(int type, int a, int b, int c) { sched_hash = vf_mix(sched_hash, (uint64_t)type * 4096 + a * 256 + b * 16 + c); T_events++; }

static const char *tail_of_trace(void) { int off = trace_len > 600 ? trace_len - 600 : 0; return trace + off; }

static void fail(const char *key, const char *fmt, ...) {
    char buf[400]; va_list ap; va_start(ap, fmt); vsnprintf(buf, sizeof buf, fmt, ap); va_end(ap);
    sched_failed = 1;
    vf_violation(key, "%s | N=%d channels=%s schedule_seed=%llu step=%ld | trace tail: %s", buf, P.N,
                 P.unified ? "fifo-per-pair" : "fifo-per-pair-and-tag", (unsigned long long)sched_seed, step_no, tail_of_trace());
}

/* ---------------- network ---------------- */
static void enq(chan_t *c, msg_t *m) { m->next = NULL; if (c->tail) c->tail->next = m; else c->head = m; c->tail = m; c->len++; }
static msg_t *deq(chan_t *c) { msg_t *m = c->head; if (!m) return NULL; c->head = m->next; if (!c->head) c->tail = NULL; c->len--; m->next = NULL; return m; }
static chan_t *chan_of(int s, int d, int kind) { return &CH[s][d][P.unified ? 0 : kind]; }

static int my_send_am(parsec_comm_engine_t *ce, parsec_ce_tag_t tag, int remote, void *addr, size_t size) {
    (void)ce;
    if (tag != PARSEC_TERMDET_FOURCOUNTER_MSG_TAG) { fail("net:unexpected-tag", "send_am with tag %ld", (long)tag); return 0; }
    if (remote < 0 || remote >= P.N || size > sizeof(((msg_t *)0)->payload) || cur_rank < 0) {
        fail("net:ctl-destination-out-of-range", "rank %d sends control message to %d (size %zu)", cur_rank, remote, size); return 0; }
    msg_t *m = calloc(1, sizeof *m); m->src = cur_rank; m->dst = remote; m->kind = K_CTL; m->size = size; memcpy(m->payload, addr, size);
    parsec_termdet_fourcounter_msg_type_t t = *(parsec_termdet_fourcounter_msg_type_t *)addr;
    if (cur_rank == 0 && remote == 1 && t == PARSEC_TERMDET_FOURCOUNTER_MSG_TYPE_DOWN) waves++;
    enq(chan_of(cur_rank, remote, K_CTL), m); T_ctl++;
    return 0;
}

/* ---------------- the safety oracle ---------------- */
static void term_cb(parsec_taskpool_t *tp) {
    int r = -1;
    for (int q = 0; q < P.N; q++) if (ftp[q] == tp) r = q;
    if (r < 0) { fail("harness:unknown-taskpool", "callback for unknown taskpool"); return; }
    T_callbacks++;
    tr("!%d", r);
    if (++R[r].term_calls > 1) fail("safety:callback-twice", "rank %d termination callback ran %d times", r, R[r].term_calls);
    R[r].terminated = 1;
    for (int q = 0; q < P.N; q++)
        if (R[q].tasks != 0 || R[q].actions != 0 || !R[q].ready) {
            fail(q == r ? "safety:terminated-while-busy:self" : "safety:terminated-while-busy:other",
                 "rank %d declared termination while rank %d has %d tasks %d pending actions ready=%d", r, q, R[q].tasks, R[q].actions, R[q].ready);
            break;
        }
    if (inflight_app != 0)
        fail(n_started ? "safety:terminated-with-message-in-flight:started-not-ended" :
             n_parked ? "safety:terminated-with-message-in-flight:parked" : "safety:terminated-with-message-in-flight:in-channel",
             "rank %d declared termination with %d application messages outstanding (in channel %d, parked %d, started-not-ended %d)",
             r, inflight_app, n_in_channel, n_parked, n_started);
}

/* ---------------- client actions (the runtime's discipline) ---------------- */
#define MOD(r) (ftp[r]->tdm.module)
static void add_tasks(int r, int k)   { if (!k) return; cur_rank = r; if (k > 0) R[r].tasks += k; else R[r].tasks += k; MOD(r)->taskpool_addto_nb_tasks(ftp[r], k); }
static void add_actions(int r, int k) { if (!k) return; cur_rank = r; R[r].actions += k; MOD(r)->taskpool_addto_runtime_actions(ftp[r], k); }

static void send_app(int r, int d, int forward) {
    cur_rank = r;
    inflight_app++; n_in_channel++;
    int go = MOD(r)->outgoing_message_start(ftp[r], d, NULL);
    if (go != 1) fail("client:outgoing-message-delayed", "outgoing_message_start returned %d", go);
    msg_t *m = calloc(1, sizeof *m); m->src = r; m->dst = d; m->kind = K_APP;
    enq(chan_of(r, d, K_APP), m); P.msg_budget--; T_app++; if (forward) T_forwards++;
    tr("%d>%d", r, d);
}

static int pick_other(int r) { int d = vf_randn(&rng, P.N - 1); return d >= r ? d + 1 : d; }

static void do_monitor(int r) {
    cur_rank = r;
    parsec_termdet_open_module(ftp[r], "fourcounter");
    MOD(r)->monitor_taskpool(ftp[r], term_cb);
    R[r].monitored = 1;
    /* pre-ready load: the startup pending actions (jdf2c: NB_TASK_CLASSES), optionally tasks */
    int c = 1 + vf_randn(&rng, 3);
    R[r].actions += c; R[r].startup = c;
    if (vf_chance(&rng, P.p_setapi)) MOD(r)->taskpool_set_runtime_actions(ftp[r], c);
    else MOD(r)->taskpool_addto_runtime_actions(ftp[r], c);
    if (P.task_budget > 0 && vf_chance(&rng, P.p_pretask)) {
        int k = 1 + vf_randn(&rng, 2); if (k > P.task_budget) k = P.task_budget; P.task_budget -= k;
        R[r].tasks += k;
        if (vf_chance(&rng, P.p_setapi)) MOD(r)->taskpool_set_nb_tasks(ftp[r], k); else MOD(r)->taskpool_addto_nb_tasks(ftp[r], k);
    }
    tr("M%d", r);
}
static void do_register(int r) { parsec_taskpool_register(ftp[r]); R[r].registered = 1; tr("G%d", r); }
static void do_ready(int r) { cur_rank = r; R[r].ready = 1; tr("R%d", r); MOD(r)->taskpool_ready(ftp[r]); }

static void do_startup(int r) {
    int k = 0;
    if (P.task_budget > 0) { k = vf_randn(&rng, 4); if (k > P.task_budget) k = P.task_budget; P.task_budget -= k; }
    tr("S%d+%d", r, k);
    add_tasks(r, k);
    R[r].startup--;
    add_actions(r, -1);
}

static void do_task(int r) {
    int sent = 0;
    tr("T%d", r); T_tasks++;
    if (P.N > 1 && P.msg_budget > 0 && vf_chance(&rng, P.p_send)) {
        int nd = 1 + (P.msg_budget > 1 && vf_chance(&rng, P.p_send2));
        for (int i = 0; i < nd && !sched_failed; i++) {
            if (!sent) { add_actions(r, +1); R[r].sendtok++; sent = 1; }   /* remote_dep_inc_flying_messages, once per remote_deps */
            send_app(r, pick_other(r), 0);
        }
    }
    if (sched_failed) return;
    if (P.task_budget > 0 && vf_chance(&rng, P.p_spawn)) {
        int j = 1 + vf_randn(&rng, 2); if (j > P.task_budget) j = P.task_budget; P.task_budget -= j;
        add_tasks(r, j);
    }
    if (sent && vf_chance(&rng, 150)) { R[r].sendtok--; add_actions(r, -1); }  /* send already locally complete */
    if (sched_failed) return;
    add_tasks(r, -1);
}

static void do_sendc(int r) { tr("C%d", r); R[r].sendtok--; add_actions(r, -1); }

static void recv_end(int r, msg_t *m) {
    /* remote_dep_release_incoming: [inc flying] release_deps (new ready tasks) ; incoming_message_end ; propagate ; cleanup */
    int k = 0, pend = !vf_chance(&rng, P.p_nopend);
    if (P.task_budget > 0) { k = vf_randn(&rng, 3); if (k > P.task_budget) k = P.task_budget; }
    if (!pend) {   /* variant without the receive-side pending action (no DIST_COLLECTIVES): legal only if work is created */
        if (k == 0 && P.task_budget > 0) k = 1;
        if (k == 0) pend = 1; else T_nopend++;
    }
    P.task_budget -= k;
    tr("E%d<%d+%d%s", r, m->src, k, pend ? "" : "n");
    cur_rank = r;
    if (pend) add_actions(r, +1);
    if (sched_failed) return;
    R[r].tasks += k;            /* the work exists before the receive is announced complete */
    inflight_app--; n_started--;
    if (k) MOD(r)->taskpool_addto_nb_tasks(ftp[r], k);
    if (sched_failed) return;
    MOD(r)->incoming_message_end(ftp[r], NULL);
    if (sched_failed) return;
    int fw = 0;
    if (pend && P.N > 2 && P.msg_budget > 0 && vf_chance(&rng, P.p_forward)) { send_app(r, pick_other(r), 1); fw = 1; }
    if (sched_failed) return;
    if (pend) { if (fw || vf_chance(&rng, P.p_keepact)) R[r].sendtok++; else add_actions(r, -1); }
    free(m);
}

static void recv_start(int r, msg_t *m) {
    cur_rank = r;
    if (R[r].tasks == 0 && R[r].actions == 0) {
        reactivations++;
    }
    n_started++;
    tr("B%d<%d", r, m->src);
    MOD(r)->incoming_message_start(ftp[r], m->src, NULL, NULL, 0, NULL);
    if (sched_failed) return;
    if (R[r].nrdv < MAXRDV && vf_chance(&rng, P.p_rdv)) { R[r].rdv[R[r].nrdv++] = m; rdv_cnt++; }   /* data GET in progress */
    else recv_end(r, m);
}

static void deliver(int s, int d, int kidx) {
    chan_t *c = &CH[s][d][kidx];
    msg_t *m = deq(c);
    cur_rank = d;
    if (m->kind == K_APP) {
        n_in_channel--;
        if (R[d].terminated) { fail("safety:message-for-terminated-rank", "application message %d->%d delivered after rank %d terminated", s, d, d); return; }
        if (!R[d].ready) {   /* remote_dep parks activations of unknown taskpools */
            m->next = NULL; if (R[d].parked_tail) R[d].parked_tail->next = m; else R[d].parked_head = m; R[d].parked_tail = m;
            n_parked++; parked_cnt++; tr("P%d<%d", d, s);
            return;
        }
        recv_start(d, m);
    } else {
        if (R[d].terminated) { T_leftover_ctl++; tr("X%d<%d", d, s); free(m); return; }  /* not demanded by the property: counted only */
        ((parsec_termdet_fourcounter_msg_down_t *)m->payload)->tp_id = ftp[d]->taskpool_id;
        if (!R[d].ready) { delayed_ctl++; if (!R[d].registered) late_lookup++; }
        tr("D%d<%d%c", d, s, *(parsec_termdet_fourcounter_msg_type_t *)m->payload == PARSEC_TERMDET_FOURCOUNTER_MSG_TYPE_UP ? 'u' :
           (((parsec_termdet_fourcounter_msg_down_t *)m->payload)->result ? 'T' : 'f'));
        parsec_termdet_fourcounter_msg_dispatch(&parsec_ce, PARSEC_TERMDET_FOURCOUNTER_MSG_TAG, m->payload, m->size, s, NULL);
        free(m);
    }
}

/* ---------------- one schedule ---------------- */
enum { EV_REG, EV_MON, EV_READY, EV_STARTUP, EV_TASK, EV_SENDC, EV_RECVEND, EV_PARKED, EV_DELIVER, EV_HOLD };
typedef struct { int type, a, b, c, w; } ev_t;

static void new_taskpool(int r) {
    ftp[r] = PARSEC_OBJ_NEW(parsec_taskpool_t);
    ftp[r]->context = fctx[r];
    parsec_taskpool_reserve_id(ftp[r]);
}

static void choose_params(void) {
    static const int nw[MAXN + 1] = {0, 2, 8, 14, 16, 16, 12, 14, 14};
    int tot = 0, x; for (int i = 1; i <= MAXN; i++) tot += nw[i];
    x = vf_randn(&rng, tot); P.N = 1; while (x >= nw[P.N]) { x -= nw[P.N]; P.N++; }
    P.unified = vf_chance(&rng, 500);
    P.task_budget = 2 + vf_randn(&rng, 40);
    P.msg_budget = vf_randn(&rng, 30);
    P.p_send = 200 + vf_randn(&rng, 700); P.p_send2 = vf_randn(&rng, 500); P.p_spawn = vf_randn(&rng, 600);
    P.p_rdv = vf_chance(&rng, 300) ? 0 : vf_randn(&rng, 800);
    P.p_nopend = vf_chance(&rng, 600) ? 0 : vf_randn(&rng, 500);
    P.p_forward = vf_randn(&rng, 400); P.p_keepact = vf_randn(&rng, 500);
    P.p_hold = vf_chance(&rng, 300) ? 0 : 20 + vf_randn(&rng, 300); P.hold_max = 4 + vf_randn(&rng, 1 << (2 + vf_randn(&rng, 8)));
    P.p_pretask = vf_randn(&rng, 500); P.p_setapi = vf_randn(&rng, 500); P.p_late = vf_randn(&rng, 600);
    switch (vf_randn(&rng, 5)) {
    case 0: P.w_ctl = 10; P.w_app = 10; P.w_work = 10; break;
    case 1: P.w_ctl = 60; P.w_app = 2;  P.w_work = 10; break;   /* waves spin fast against slow application traffic */
    case 2: P.w_ctl = 3;  P.w_app = 30; P.w_work = 30; break;
    case 3: P.w_ctl = 40; P.w_app = 10; P.w_work = 1;  break;   /* slow workers */
    default: P.w_ctl = 1 + vf_randn(&rng, 60); P.w_app = 1 + vf_randn(&rng, 60); P.w_work = 1 + vf_randn(&rng, 60); break;
    }
}

static int quiescent(void) {
    if (inflight_app) return 0;
    for (int r = 0; r < P.N; r++) if (!R[r].ready || R[r].tasks || R[r].actions) return 0;
    return 1;
}
static int all_terminated(void) { for (int r = 0; r < P.N; r++) if (!R[r].terminated) return 0; return 1; }

static int run_schedule(uint64_t seed) {
    sched_seed = seed; vf_rng_seed(&rng, seed, 11);
    choose_params();
    sched_hash = vf_mix(seed & 0, P.N * 2 + P.unified); sched_failed = 0; step_no = 0; trace_len = 0; trace[0] = 0;
    waves = reactivations = delayed_ctl = parked_cnt = holds_cnt = rdv_cnt = late_lookup = 0;
    inflight_app = n_in_channel = n_parked = n_started = 0;
    memset(R, 0, sizeof R); memset(CH, 0, sizeof CH);
    tr("N=%d %s:", P.N, P.unified ? "u" : "t");
    for (int r = 0; r < P.N; r++) {
        fctx[r]->my_rank = r; fctx[r]->nb_nodes = P.N;
        if (!ftp[r]) new_taskpool(r);
        R[r].w_ready = vf_chance(&rng, P.p_late) ? 1 : 40;
    }
    long postq = 0, maxpostq = 0; int was_q = 0;
    ev_t ev[MAXN * 8 + MAXN * MAXN * 4];
    while (!sched_failed) {
        if (all_terminated()) break;
        if (++step_no > 2000000) { vf_out("{\"type\":\"harness_error\",\"text\":\"step cap reached seed %llu\"}", (unsigned long long)seed); return -1; }
        int q = quiescent();
        if (q && !was_q) { was_q = 1; tr("Q"); }
        if (!q && was_q) { fail("harness:quiescence-lost", "load reappeared after quiescence"); break; }
        int ne = 0; long next_release = -1;
        for (int r = 0; r < P.N; r++) {
            rank_t *k = &R[r];
            if (!k->ready) {
                if (!k->registered) ev[ne++] = (ev_t){EV_REG, r, 0, 0, k->w_ready};
                if (!k->monitored)  ev[ne++] = (ev_t){EV_MON, r, 0, 0, k->w_ready};
                if (k->registered && k->monitored) ev[ne++] = (ev_t){EV_READY, r, 0, 0, k->w_ready};
                continue;
            }
            if (k->terminated) continue;
            if (k->startup > 0) ev[ne++] = (ev_t){EV_STARTUP, r, 0, 0, P.w_work};
            if (k->tasks > 0)   ev[ne++] = (ev_t){EV_TASK, r, 0, 0, P.w_work};
            if (k->sendtok > 0) ev[ne++] = (ev_t){EV_SENDC, r, 0, 0, P.w_work};
            if (k->nrdv > 0)    ev[ne++] = (ev_t){EV_RECVEND, r, 0, 0, P.w_app};
            if (k->parked_head) ev[ne++] = (ev_t){EV_PARKED, r, 0, 0, P.w_app * 2};
        }
        for (int s = 0; s < P.N; s++) for (int d = 0; d < P.N; d++) for (int kx = 0; kx < 2; kx++) {
            chan_t *c = &CH[s][d][kx];
            if (!c->head) continue;
            if (c->held_until > step_no) { if (next_release < 0 || c->held_until < next_release) next_release = c->held_until; continue; }
            ev[ne++] = (ev_t){EV_DELIVER, s, d, kx, c->head->kind == K_APP ? P.w_app : P.w_ctl};
            if (!q && P.p_hold) ev[ne++] = (ev_t){EV_HOLD, s, d, kx, 1 + (P.w_app + P.w_ctl + P.w_work) * P.p_hold / 3000};
        }
        if (ne == 0) {
            if (next_release > 0) { step_no = next_release; continue; }   /* everything is held: let time pass */
            int nt = 0; for (int r = 0; r < P.N; r++) nt += !R[r].terminated;
            if (q) fail("liveness:deadlock-after-quiescence", "all ranks idle, no message anywhere, %d ranks not terminated after %ld waves", nt, waves);
            else fail("harness:no-enabled-event", "no event enabled before quiescence");
            break;
        }
        long tw = 0; for (int i = 0; i < ne; i++) tw += ev[i].w;
        long x = (long)(vf_rand(&rng) >> 11) % tw; int i = 0; while (x >= ev[i].w) { x -= ev[i].w; i++; }
        ev_t e = ev[i];
        ev_hash(e.type, e.a, e.b, e.c);
        switch (e.type) {
        case EV_REG: do_register(e.a); break;
        case EV_MON: do_monitor(e.a); break;
        case EV_READY: do_ready(e.a); break;
        case EV_STARTUP: do_startup(e.a); break;
        case EV_TASK: do_task(e.a); break;
        case EV_SENDC: do_sendc(e.a); break;
        case EV_RECVEND: { rank_t *k = &R[e.a]; int j = vf_randn(&rng, k->nrdv); msg_t *m = k->rdv[j]; k->rdv[j] = k->rdv[--k->nrdv]; recv_end(e.a, m); break; }
        case EV_PARKED: { rank_t *k = &R[e.a]; msg_t *m = k->parked_head; k->parked_head = m->next; if (!k->parked_head) k->parked_tail = NULL; m->next = NULL; n_parked--; recv_start(e.a, m); break; }
        case EV_DELIVER: if (q) { postq++; } deliver(e.a, e.b, e.c); break;
        case EV_HOLD: CH[e.a][e.b][e.c].held_until = step_no + 1 + vf_randn(&rng, P.hold_max); holds_cnt++; tr("H%d>%d", e.a, e.b); break;
        }
        if (q && !sched_failed && postq > (long)LIVE_K * P.N * (1 + (P.N > 1) + (P.N > 2) + (P.N > 4))) {
            fail("liveness:livelock-after-quiescence", "all ranks idle and no application message outstanding for %ld control deliveries (%ld waves), not terminated", postq, waves);
            break;
        }
    }
    if (postq > maxpostq) maxpostq = postq;
    if (!sched_failed) {
        for (int r = 0; r < P.N; r++) if (R[r].term_calls != 1) fail("safety:callback-count", "rank %d has %d callbacks at the end", r, R[r].term_calls);
        if (inflight_app || n_in_channel || n_parked || n_started) fail("harness:accounting", "leftover application messages at the end");
    }
    /* leftovers and clean-up */
    for (int s = 0; s < P.N; s++) for (int d = 0; d < P.N; d++) for (int kx = 0; kx < 2; kx++) { msg_t *m; while ((m = deq(&CH[s][d][kx]))) { if (!sched_failed && m->kind == K_CTL) T_leftover_ctl++; free(m); } }
    for (int r = 0; r < P.N; r++) {
        msg_t *m; while ((m = R[r].parked_head)) { R[r].parked_head = m->next; free(m); }
        for (int j = 0; j < R[r].nrdv; j++) free(R[r].rdv[j]);
        if (sched_failed) { ftp[r] = NULL; continue; }   /* abandon the taskpools of a failed schedule (state unknown) */
        cur_rank = r;
        MOD(r)->unmonitor_taskpool(ftp[r]);
        parsec_taskpool_unregister(ftp[r]);
    }
    if (sched_failed) return 1;
    T_sched++; T_byN[P.N]++; T_waves += waves; T_react += reactivations; T_delayed += delayed_ctl; T_parked += parked_cnt; T_holds += holds_cnt;
    T_rdv += rdv_cnt; T_latelookup += late_lookup; if (waves > T_max_waves) T_max_waves = waves; if (maxpostq > T_max_postq) T_max_postq = maxpostq;
    if (P.unified) T_unified++; else T_pertag++;
    if (reactivations >= 1 && waves >= 2) {
        T_nontrivial++;
        if (nhashes == caphashes) { caphashes = caphashes ? caphashes * 2 : 4096; hashes = realloc(hashes, caphashes * sizeof *hashes); }
        hashes[nhashes++] = sched_hash;
    }
    return 0;
}

static int cmp_u64(const void *a, const void *b) { uint64_t x = *(const uint64_t *)a, y = *(const uint64_t *)b; return x < y ? -1 : x > y; }

static void on_abort(int sig) {
    (void)sig;
    fprintf(stderr, "\nC11 abort context: schedule_seed=%llu N=%d step=%ld trace tail: %s\n", (unsigned long long)sched_seed, P.N, step_no, tail_of_trace());
    fflush(stderr);
}

int main(int argc, char **argv) {
    int prov; MPI_Init_thread(&argc, &argv, MPI_THREAD_SERIALIZED, &prov);
    long nsched = vf_arg_ll(argc, argv, "--schedules", 1000);
    uint64_t seed = (uint64_t)vf_arg_ll(argc, argv, "--seed", 1);
    const char *hashfile = vf_arg(argc, argv, "--hashfile", NULL);
    long long one = vf_arg_ll(argc, argv, "--one", -1);
    int nsamples = (int)vf_arg_ll(argc, argv, "--samples", 2);
    verbose = vf_has_flag(argc, argv, "--verbose");
    int pargc = 1; char *pargv_[2] = {argv[0], NULL}; char **pargv = pargv_;
    cpu_set_t cpus; sched_getaffinity(0, sizeof cpus, &cpus);   /* parsec_init binds the caller to one core: undo it afterwards */
    parsec_context_t *real = parsec_init(1, &pargc, &pargv);
    if (!real) { fprintf(stderr, "parsec_init failed\n"); return 2; }
    sched_setaffinity(0, sizeof cpus, &cpus);
    struct sigaction sa; memset(&sa, 0, sizeof sa); sa.sa_handler = on_abort; sa.sa_flags = SA_RESETHAND; sigaction(SIGABRT, &sa, NULL);
    parsec_ce.send_am = my_send_am;
    for (int r = 0; r < MAXN; r++) fctx[r] = calloc(1, sizeof(parsec_context_t));
    vf_heartbeat_start();
    int rc = 0;
    if (one >= 0) {
        rc = run_schedule((uint64_t)one);
        vf_out("{\"type\":\"schedule\",\"seed\":%lld,\"result\":%d,\"trace\":\"%s\"}", one, rc, trace);
    } else {
        for (long i = 0; i < nsched; i++) {
            uint64_t s = vf_mix(seed, (uint64_t)i) >> 1;
            int r1 = run_schedule(s);
            VF_TICK();
            if (r1 < 0) { rc = 2; break; }
            if (r1 == 0 && nsamples > 0 && reactivations >= 1 && waves >= 2 && trace_len < 700) {
                nsamples--; vf_out("{\"type\":\"sample\",\"schedule_seed\":%llu,\"N\":%d,\"waves\":%ld,\"reactivations\":%ld,\"trace\":\"%s\"}", (unsigned long long)s, P.N, waves, reactivations, trace);
            }
            if (vf_nviolations >= 6) break;
        }
    }
    vf_heartbeat_stop();
    if (nhashes) qsort(hashes, nhashes, sizeof *hashes, cmp_u64);
    long distinct = 0; for (long i = 0; i < nhashes; i++) if (i == 0 || hashes[i] != hashes[i - 1]) hashes[distinct++] = hashes[i];
    if (hashfile) { FILE *f = fopen(hashfile, "wb"); if (f) { if (distinct) fwrite(hashes, sizeof *hashes, distinct, f); fclose(f); } }
    vf_out("{\"type\":\"summary\",\"schedules\":%ld,\"nontrivial\":%ld,\"distinct_nontrivial\":%ld,\"events\":%ld,\"waves\":%ld,\"max_waves\":%ld,"
           "\"reactivations\":%ld,\"ctl_delayed_not_ready\":%ld,\"ctl_for_unregistered\":%ld,\"app_parked\":%ld,\"holds\":%ld,\"rendezvous\":%ld,"
           "\"ctl_msgs\":%ld,\"app_msgs\":%ld,\"forwards\":%ld,\"recv_without_pending_action\":%ld,\"tasks\":%ld,\"callbacks\":%ld,\"leftover_ctl\":%ld,"
           "\"max_ctl_deliveries_after_quiescence\":%ld,\"fifo_per_pair\":%ld,\"fifo_per_pair_and_tag\":%ld,"
           "\"byN\":[%ld,%ld,%ld,%ld,%ld,%ld,%ld,%ld],\"violations\":%d}",
           T_sched, T_nontrivial, distinct, T_events, T_waves, T_max_waves, T_react, T_delayed, T_latelookup, T_parked, T_holds, T_rdv, T_ctl, T_app,
           T_forwards, T_nopend, T_tasks, T_callbacks, T_leftover_ctl, T_max_postq, T_unified, T_pertag,
           T_byN[1], T_byN[2], T_byN[3], T_byN[4], T_byN[5], T_byN[6], T_byN[7], T_byN[8], vf_nviolations);
    fflush(stdout);
    if (rc == 2) return 2;
    _exit(vf_nviolations ? 1 : 0);   /* skip parsec_fini: taskpools of failed schedules may be in an undefined state */
}
