/* C10: the local termination detector (mca/termdet/local) is exact.
 *
 * W worker threads drive the real module on a real parsec_taskpool_t with legal histories:
 *   - work exists as "units": task units (counted in nb_tasks) and action units (nb_pending_actions);
 *   - a thread only ADDS units while it holds a unit itself (the runtime's discipline: counters only rise under a
 *     held pending action or from inside a counted task), except the single-threaded set-up before the round starts;
 *   - a unit is only COMPLETED after the call that added it has returned (it is published to the shared pool
 *     after the add returns; anyone may then take and complete it);
 *   - taskpool_ready is called exactly once, by main before the round, by a worker at a random point (often right
 *     around its own last release), or by main after everything dropped to zero;
 *   - set_nb_tasks / set_runtime_actions are used in the set-up and, in "private" rounds, by the one thread that
 *     is known to be the only user of nb_tasks.
 * Shadow rule (DESIGN C10): `unannounced` is incremented BEFORE the call that adds work and decremented BEFORE the
 * call that announces its completion, so it counts exactly the work whose completion has not even been requested.
 *
 * Oracle: callback exactly once; inside the callback nb_tasks == 0, nb_pending_actions == 0, unannounced == 0 and
 * ready has been invoked; the observer never sees TERMINATED while unannounced > 0 or before ready was invoked;
 * when every call has returned (all work completed, ready called) the state is TERMINATED and the callback ran.
 */
#include "parsec/parsec_config.h"
#include "parsec/parsec_internal.h"
#include "parsec/runtime.h"
#include "parsec/mca/termdet/termdet.h"
#include "kit.h"
#include <mpi.h>


/* start-up ticker: MPI_Init + parsec_init (hwloc discovery, thread creation) can take minutes on a loaded box and are not
 * the code under test; keep the driver's stall detector quiet until the monitored phase begins (bounded: 15 minutes) */
static volatile int vf_init_phase = 0; static pthread_t vf_init_thread;
static void *vf_init_tick(void *a) { (void)a; for (int k = 0; vf_init_phase && k < 9000; k++) { usleep(100000); VF_TICK(); } return NULL; }
static void vf_init_begin(void) { vf_heartbeat_start(); vf_init_phase = 1; pthread_create(&vf_init_thread, NULL, vf_init_tick, NULL); }
static void vf_init_end(void) { vf_init_phase = 0; pthread_join(vf_init_thread, NULL); }

#define MAXW 16
#define MAXOPS 400
enum { OP_ADD_TASKS, OP_ADD_ACTIONS, OP_DONE_TASKS, OP_DONE_ACTION, OP_READY, OP_SET_TASKS, OP_SET_ACTIONS, OP_NOPS };
static const char *opname[] = {"addto_nb_tasks+", "addto_runtime_actions+", "addto_nb_tasks-", "addto_runtime_actions-", "ready", "set_nb_tasks", "set_runtime_actions"};

typedef struct { uint8_t tid, op, ran_cb; int16_t val; int32_t ret; uint64_t inv, resp; } oprec_t;

static parsec_taskpool_t *tp;
static const parsec_termdet_base_module_t *M;

/* per round shared state */
static volatile int32_t unannounced;          /* the shadow */
static volatile int32_t pool_tasks, pool_actions; /* units whose add has returned and that nobody holds */
static volatile int32_t cb_calls, ready_invoked, ready_returned;
static volatile int32_t workers_done, round_over;
static volatile int32_t cb_nb_tasks, cb_nbpa, cb_shadow, cb_ready;
static int W;
static uint64_t seed;
static long round_no, nrounds;
static vf_spinbar_t bar;
static volatile int stop_all;

/* per round plan (written by main before the start barrier) */
static int init_actions[MAXW], init_tasks_pool, ready_who /* -1 main first, -2 main last, else worker */, ready_step, tight, private_tid, add_budget, solo;

static oprec_t logs[MAXW + 1][MAXOPS]; static int nlog[MAXW + 1];
static __thread oprec_t *cur_op;
static __thread int my_tid;

/* observer stats */
static long obs_polls, obs_not_ready, obs_busy, obs_term;

static void cb(parsec_taskpool_t *t)
{
    int n = __atomic_add_fetch(&cb_calls, 1, __ATOMIC_SEQ_CST);
    int32_t a = t->nb_tasks, b = t->nb_pending_actions, s = unannounced, r = ready_invoked;
    if (cur_op) cur_op->ran_cb = 1;
    if (n == 1) { cb_nb_tasks = a; cb_nbpa = b; cb_shadow = s; cb_ready = r; }
    if (n > 1) vf_violation("termdet:callback-more-than-once", "round %ld: termination callback invocation #%d (thread %d, during %s)", round_no, n, my_tid, cur_op ? opname[cur_op->op] : "?");
    if (a != 0 || b != 0) vf_violation("termdet:callback-with-nonzero-counters", "round %ld: callback entered with nb_tasks=%d nb_pending_actions=%d", round_no, a, b);
    if (s > 0) vf_violation("termdet:terminated-with-unannounced-work", "round %ld: callback entered while %d units of work had not even been announced complete (thread %d, during %s)", round_no, s, my_tid, cur_op ? opname[cur_op->op] : "?");
    if (!r) vf_violation("termdet:terminated-before-ready", "round %ld: callback entered before taskpool_ready was invoked", round_no);
}

static inline oprec_t *op_begin(int op, int val)
{
    int n = nlog[my_tid];
    oprec_t *o = &logs[my_tid][n < MAXOPS ? n : MAXOPS - 1];
    if (n < MAXOPS) nlog[my_tid] = n + 1;
    o->tid = (uint8_t)my_tid; o->op = (uint8_t)op; o->val = (int16_t)val; o->ran_cb = 0; o->ret = 0;
    cur_op = o; o->inv = vf_stamp();
    return o;
}
static inline void op_end(oprec_t *o, int ret) { o->ret = ret; o->resp = vf_stamp(); cur_op = NULL; VF_TICK(); }

static void do_ready(void)
{
    __atomic_store_n(&ready_invoked, 1, __ATOMIC_SEQ_CST);
    oprec_t *o = op_begin(OP_READY, 0);
    int rc = M->taskpool_ready(tp);
    op_end(o, rc);
    __atomic_store_n(&ready_returned, 1, __ATOMIC_SEQ_CST);
}
static void add_tasks(int k)
{
    __atomic_fetch_add(&unannounced, k, __ATOMIC_SEQ_CST);
    oprec_t *o = op_begin(OP_ADD_TASKS, k);
    int rc = M->taskpool_addto_nb_tasks(tp, k);
    op_end(o, rc);
}
static void add_actions(int k)
{
    __atomic_fetch_add(&unannounced, k, __ATOMIC_SEQ_CST);
    oprec_t *o = op_begin(OP_ADD_ACTIONS, k);
    int rc = M->taskpool_addto_runtime_actions(tp, k);
    op_end(o, rc);
}
static void done_tasks(int k)
{
    __atomic_fetch_sub(&unannounced, k, __ATOMIC_SEQ_CST);
    oprec_t *o = op_begin(OP_DONE_TASKS, -k);
    int rc = M->taskpool_addto_nb_tasks(tp, -k);
    op_end(o, rc);
}
static void done_action(void)
{
    __atomic_fetch_sub(&unannounced, 1, __ATOMIC_SEQ_CST);
    oprec_t *o = op_begin(OP_DONE_ACTION, -1);
    int rc = M->taskpool_addto_runtime_actions(tp, -1);
    op_end(o, rc);
}
static int take(volatile int32_t *pool)
{
    int32_t v = *pool;
    while (v > 0) { if (__atomic_compare_exchange_n(pool, &v, v - 1, 0, __ATOMIC_SEQ_CST, __ATOMIC_SEQ_CST)) return 1; }
    return 0;
}

static void worker_round(int tid, vf_rng_t *rng)
{
    int held_a = init_actions[tid], held_t = 0, budget = add_budget, step = 0, ready_done = 0;
    long idle = 0;
    int i_ready = (ready_who == tid);
    if (private_tid == tid && solo) {
        /* this thread holds every token of the round and nb_tasks stays 0: it is the only thread that can touch the counters,
         * so it may drop all its pending actions at once with set_runtime_actions(0) */
        int extra = (int)vf_randn(rng, 3);
        if (extra) { add_actions(extra); held_a += extra; }
        if (i_ready && vf_chance(rng, 600)) { do_ready(); ready_done = 1; }
        __atomic_fetch_sub(&unannounced, held_a, __ATOMIC_SEQ_CST);
        oprec_t *o = op_begin(OP_SET_ACTIONS, 0); int rc = M->taskpool_set_runtime_actions(tp, 0); op_end(o, rc);
        held_a = 0;
        if (i_ready && !ready_done) do_ready();
        return;
    }
    if (private_tid == tid) {
        /* this thread is the only user of nb_tasks in this round: it may use set_nb_tasks (it holds an action token) */
        int k = 1 + (int)vf_randn(rng, 4);
        __atomic_fetch_add(&unannounced, k, __ATOMIC_SEQ_CST);
        oprec_t *o = op_begin(OP_SET_TASKS, k); int rc = M->taskpool_set_nb_tasks(tp, k); op_end(o, rc);
        if (i_ready && vf_chance(rng, 500)) { do_ready(); ready_done = 1; }
        /* give the action token back first (the tasks keep the taskpool alive), then finish the tasks */
        while (held_a > 0) { done_action(); held_a--; }
        if (i_ready && !ready_done && vf_chance(rng, 500)) { do_ready(); ready_done = 1; }
        if (vf_chance(rng, 500)) {
            __atomic_fetch_sub(&unannounced, k, __ATOMIC_SEQ_CST);
            o = op_begin(OP_SET_TASKS, 0); rc = M->taskpool_set_nb_tasks(tp, 0); op_end(o, rc);
        } else {
            int first = 1 + (int)vf_randn(rng, (uint32_t)k); if (first > k) first = k;
            done_tasks(first); for (int j = first; j < k; j++) done_tasks(1);
        }
        if (i_ready && !ready_done) do_ready();
        return;
    }
    for (;;) {
        if (i_ready && !ready_done && step >= ready_step) { do_ready(); ready_done = 1; }
        step++;
        if (held_a + held_t == 0) {
            int got = 0;
            if (private_tid < 0 && vf_chance(rng, 500)) { if (take(&pool_tasks)) { held_t++; got = 1; } else if (take(&pool_actions)) { held_a++; got = 1; } }
            else { if (take(&pool_actions)) { held_a++; got = 1; } else if (private_tid < 0 && take(&pool_tasks)) { held_t++; got = 1; } }
            if (!got) {
                if (__atomic_load_n(&unannounced, __ATOMIC_SEQ_CST) == 0) break;      /* nobody can create work any more */
                if (++idle > 64) sched_yield();
                continue;
            }
            idle = 0;
        }
        int c = (int)vf_randn(rng, 100);
        if (tight) c = 70 + c % 30;                           /* tight rounds: mostly just finish */
        if (budget > 0 && c < 22 && private_tid < 0) {        /* discover tasks */
            int k = 1 + (int)vf_randn(rng, 3); budget--;
            add_tasks(k);
            int keep = (int)vf_randn(rng, (uint32_t)k + 1); held_t += keep;
            if (k - keep > 0) __atomic_fetch_add(&pool_tasks, k - keep, __ATOMIC_SEQ_CST);
        } else if (budget > 0 && c < 40) {                    /* new pending actions */
            int k = 1 + (int)vf_randn(rng, 2); budget--;
            add_actions(k);
            int keep = (int)vf_randn(rng, (uint32_t)k + 1); held_a += keep;
            if (k - keep > 0) __atomic_fetch_add(&pool_actions, k - keep, __ATOMIC_SEQ_CST);
        } else if (c < 50 && private_tid < 0) {               /* grab more */
            if (take(&pool_tasks)) held_t++; else if (take(&pool_actions)) held_a++;
        } else if (c < 60 && held_t > 1) {                    /* several tasks complete in one call */
            int m = held_t; held_t = 0; done_tasks(m);
        } else if (held_t > 0 && (held_a == 0 || (c & 1))) {
            held_t--; done_tasks(1);
        } else if (held_a > 0) {
            if (tight && vf_chance(rng, 300)) sched_yield();
            held_a--; done_action();
        }
    }
    if (i_ready && !ready_done) do_ready();                   /* ready after this thread's work dropped to zero */
}

static void worker(int tid, int nt, void *arg)
{
    (void)nt; (void)arg; my_tid = tid;
    vf_rng_t rng;
    for (;;) {
        vf_spinbar_wait(&bar);
        if (stop_all) return;
        vf_rng_seed(&rng, seed + (uint64_t)round_no * 2654435761ULL, (uint64_t)tid + 1);
        worker_round(tid, &rng);
        __atomic_fetch_add(&workers_done, 1, __ATOMIC_SEQ_CST);
        vf_spinbar_wait(&bar);
    }
}

static void *observer(void *a)
{
    (void)a; my_tid = MAXW;
    for (;;) {
        vf_spinbar_wait(&bar);
        if (stop_all) return NULL;
        int extra = 0; long k = 0;
        while (extra < 3) {
            parsec_termdet_taskpool_state_t st = M->taskpool_state(tp);
            obs_polls++;
            if (st == PARSEC_TERM_TP_TERMINATED) {
                int32_t s = __atomic_load_n(&unannounced, __ATOMIC_SEQ_CST), r = ready_invoked;
                obs_term++;
                if (s > 0) vf_violation("termdet:state-terminated-with-unannounced-work", "round %ld: observer read TERMINATED while %d units had not been announced complete", round_no, s);
                if (!r) vf_violation("termdet:state-terminated-before-ready", "round %ld: observer read TERMINATED before ready was invoked", round_no);
            } else if (st == PARSEC_TERM_TP_BUSY) obs_busy++; else if (st == PARSEC_TERM_TP_NOT_READY) obs_not_ready++;
            if (round_over) extra++;
            if ((++k & 63) == 0) sched_yield();
        }
        vf_spinbar_wait(&bar);
    }
}

/* ---- statistics ---- */
static long n_hist, n_overlapped, n_distinct, n_ops, cb_by_op[OP_NOPS], n_ready_main_first, n_ready_main_last, n_ready_worker, n_private, n_tight, n_zero_cross;
static uint64_t *sigset; static size_t sigcap = 1 << 21, nsig; static int nsamples;
static int sig_add(uint64_t s) { if (!s) s = 1; size_t i = (size_t)(s % sigcap); while (sigset[i]) { if (sigset[i] == s) return 0; i = (i + 1) % sigcap; } if (nsig * 2 < sigcap) { sigset[i] = s; nsig++; } return 1; }
static int cmp_inv(const void *a, const void *b) { uint64_t x = ((const oprec_t *)a)->inv, y = ((const oprec_t *)b)->inv; return x < y ? -1 : x > y; }
static oprec_t H[(MAXW + 1) * MAXOPS];

static void print_history(const char *why, int hn)
{
    char buf[3600]; int p = 0;
    for (int i = 0; i < hn && p < 3400; i++)
        p += snprintf(buf + p, sizeof buf - p, "[t%d %s%s %d ->%d%s @%llu-%llu] ", H[i].tid == MAXW ? 99 : H[i].tid, opname[H[i].op], "", H[i].val, H[i].ret, H[i].ran_cb ? " CALLBACK" : "",
                      (unsigned long long)H[i].inv, (unsigned long long)H[i].resp);
    vf_out("{\"type\":\"history\",\"why\":\"%s\",\"round\":%ld,\"workers\":%d,\"ops\":\"%s\"}", why, round_no, W, buf);
}

int main(int argc, char **argv)
{
    vf_init_begin();
    int prov; MPI_Init_thread(&argc, &argv, MPI_THREAD_SERIALIZED, &prov);
    cpu_set_t cpus; int have_cpus = (0 == sched_getaffinity(0, sizeof cpus, &cpus));
    int pargc = 1; char *pargv_s[2] = {argv[0], NULL}; char **pargv = pargv_s;
    parsec_context_t *ctx = parsec_init(1, &pargc, &pargv);
    if (!ctx) { fprintf(stderr, "parsec_init failed\n"); return 2; }
    if (have_cpus) sched_setaffinity(0, sizeof cpus, &cpus);   /* parsec_init pinned us to one core; threads would inherit it */
    vf_init_end();
    seed = (uint64_t)vf_arg_ll(argc, argv, "--seed", 1);
    W = (int)vf_arg_ll(argc, argv, "--workers", 8); if (W < 1) W = 1; if (W > MAXW) W = MAXW;
    nrounds = vf_arg_ll(argc, argv, "--rounds", 1000);
    int tight_pm = (int)vf_arg_ll(argc, argv, "--tight", 500);
    int pm = (int)vf_arg_ll(argc, argv, "--yield", 0);
    vf_yield_config(seed, pm, (int)vf_arg_ll(argc, argv, "--yield-us", 0), 1ULL << PARSEC_VERIF_SITE_TERMDET_LOCAL);
    sigset = calloc(sigcap, sizeof(uint64_t));
    my_tid = MAXW;

    vf_spinbar_init(&bar, W + 2);
    pthread_t th[MAXW], obs; vf_team_ctx_t cx[MAXW]; pthread_barrier_t pb; pthread_barrier_init(&pb, NULL, W);
    for (int i = 0; i < W; i++) { cx[i] = (vf_team_ctx_t){worker, NULL, i, W, &pb}; pthread_create(&th[i], NULL, vf_team_tramp, &cx[i]); }
    pthread_create(&obs, NULL, observer, NULL);
    vf_rng_t mr; vf_rng_seed(&mr, seed, 777);

    for (round_no = 0; round_no < nrounds && !vf_nviolations; round_no++) {
        tp = PARSEC_OBJ_NEW(parsec_taskpool_t);
        for (int k = 0; k < 6; k++) PARSEC_OBJ_RETAIN(tp);      /* our own references: a second (wrong) release cannot free it */
        parsec_termdet_open_module(tp, "local");
        M = tp->tdm.module;
        M->monitor_taskpool(tp, cb);
        cb_calls = 0; ready_invoked = 0; ready_returned = 0; workers_done = 0; round_over = 0; unannounced = 0; pool_tasks = 0; pool_actions = 0;
        for (int t = 0; t <= MAXW; t++) nlog[t] = 0;
        /* ---- plan ---- */
        tight = vf_chance(&mr, (uint32_t)tight_pm);
        private_tid = (!tight && W >= 1 && vf_chance(&mr, 120)) ? (int)vf_randn(&mr, (uint32_t)W) : -1;
        add_budget = tight ? (int)vf_randn(&mr, 2) : 1 + (int)vf_randn(&mr, 8);
        int r = (int)vf_randn(&mr, 100);
        ready_who = r < 15 ? -1 : r < 27 ? -2 : (int)vf_randn(&mr, (uint32_t)W);
        ready_step = (int)vf_randn(&mr, tight ? 3 : 12);
        if (vf_chance(&mr, 300)) ready_step = 1000000;           /* only after this worker ran out of work */
        int ntok = 0;
        for (int t = 0; t < W; t++) { init_actions[t] = tight ? 1 : (vf_chance(&mr, 700) ? 1 : 0) + (vf_chance(&mr, 100) ? 1 : 0); ntok += init_actions[t]; }
        if (private_tid >= 0 && init_actions[private_tid] == 0) { init_actions[private_tid] = 1; ntok++; }
        solo = (private_tid >= 0 && vf_chance(&mr, 300));
        if (solo) { ntok = 0; for (int t = 0; t < W; t++) { if (t != private_tid) init_actions[t] = 0; ntok += init_actions[t]; } }
        if (ntok == 0) { init_actions[0] = 1; ntok = 1; }
        init_tasks_pool = (tight || private_tid >= 0) ? 0 : (vf_chance(&mr, 400) ? 1 + (int)vf_randn(&mr, 6) : 0);
        /* ---- single-threaded set-up through the module ---- */
        unannounced = ntok + init_tasks_pool;
        int style = (int)vf_randn(&mr, 3); oprec_t *o; int rc;
        if (style == 0) { o = op_begin(OP_SET_ACTIONS, ntok); rc = M->taskpool_set_runtime_actions(tp, ntok); op_end(o, rc); }
        else if (style == 1) { for (int k = 0; k < ntok; k++) { o = op_begin(OP_ADD_ACTIONS, 1); rc = M->taskpool_addto_runtime_actions(tp, 1); op_end(o, rc); } }
        else { /* DTD style: both set to 0 first */
            o = op_begin(OP_SET_TASKS, 0); rc = M->taskpool_set_nb_tasks(tp, 0); op_end(o, rc);
            o = op_begin(OP_SET_ACTIONS, 0); rc = M->taskpool_set_runtime_actions(tp, 0); op_end(o, rc);
            o = op_begin(OP_ADD_ACTIONS, ntok); rc = M->taskpool_addto_runtime_actions(tp, ntok); op_end(o, rc);
        }
        if (init_tasks_pool) {
            if (vf_chance(&mr, 500)) { o = op_begin(OP_SET_TASKS, init_tasks_pool); rc = M->taskpool_set_nb_tasks(tp, init_tasks_pool); op_end(o, rc); }
            else { o = op_begin(OP_ADD_TASKS, init_tasks_pool); rc = M->taskpool_addto_nb_tasks(tp, init_tasks_pool); op_end(o, rc); }
            pool_tasks = init_tasks_pool;
        }
        if (ready_who == -1) { do_ready(); n_ready_main_first++; } else if (ready_who == -2) n_ready_main_last++; else n_ready_worker++;
        if (private_tid >= 0) n_private++;
        if (tight) n_tight++;
        __atomic_thread_fence(__ATOMIC_SEQ_CST);
        vf_spinbar_wait(&bar);                                    /* go */
        while (__atomic_load_n(&workers_done, __ATOMIC_SEQ_CST) < W) sched_yield();
        if (ready_who == -2) do_ready();
        __atomic_store_n(&round_over, 1, __ATOMIC_SEQ_CST);
        vf_spinbar_wait(&bar);                                    /* everybody (observer included) is out of the taskpool */

        /* ---- judge at quiescence ---- */
        int hn = 0;
        for (int t = 0; t <= MAXW; t++) for (int k = 0; k < nlog[t] && hn < (int)(sizeof H / sizeof H[0]); k++) H[hn++] = logs[t][k];
        qsort(H, (size_t)hn, sizeof(oprec_t), cmp_inv);
        parsec_termdet_taskpool_state_t st = M->taskpool_state(tp);
        if (!vf_nviolations) {
            if (unannounced != 0 || pool_tasks != 0 || pool_actions != 0)
                vf_violation("harness:units-left", "round %ld: harness accounting broken: unannounced=%d pool=%d/%d", round_no, unannounced, pool_tasks, pool_actions);
            else if (cb_calls == 0 || st != PARSEC_TERM_TP_TERMINATED)
                vf_violation("termdet:not-terminated-at-quiescence", "round %ld: all work completed and ready returned, yet callbacks=%d state=%d nb_tasks=%d nb_pending_actions=%d (last op %s by t%d)",
                             round_no, cb_calls, (int)st, tp->nb_tasks, tp->nb_pending_actions, hn ? opname[H[hn - 1].op] : "-", hn ? H[hn - 1].tid : -1);
        }
        if (vf_nviolations) { print_history("violation", hn > 60 ? 60 : hn); break; }
        /* coverage */
        n_hist++; n_ops += hn;
        int ov = 0; uint64_t sig = 0x51;
        for (int i = 0; i < hn; i++) {
            sig = vf_mix(sig, (uint64_t)H[i].tid * 64 + H[i].op * 8 + (H[i].val & 7) + (H[i].ran_cb ? 4096 : 0));
            if (H[i].ran_cb) cb_by_op[H[i].op]++;
            if (H[i].op == OP_DONE_TASKS && H[i].ret == 0) n_zero_cross++;
            for (int j = i + 1; j < hn && H[j].inv < H[i].resp; j++) if (H[j].tid != H[i].tid) { ov = 1; break; }
        }
        if (ov) { n_overlapped++; if (sig_add(sig)) n_distinct++; if (nsamples < 3 && hn >= 6 && hn <= 40) { nsamples++; print_history("sample", hn); } }
        M->unmonitor_taskpool(tp);
        for (int k = 0; k < 7; k++) PARSEC_OBJ_RELEASE(tp);
        tp = NULL;
    }
    stop_all = 1; vf_spinbar_wait(&bar);
    for (int i = 0; i < W; i++) pthread_join(th[i], NULL);
    pthread_join(obs, NULL);
    vf_heartbeat_stop();
    vf_out("{\"type\":\"summary\",\"workers\":%d,\"histories\":%ld,\"overlapped\":%ld,\"distinct_overlapped\":%ld,\"ops\":%ld,"
           "\"cb_in_ready\":%ld,\"cb_in_addto_nb_tasks\":%ld,\"cb_in_addto_runtime_actions\":%ld,\"cb_in_set_nb_tasks\":%ld,\"cb_in_set_runtime_actions\":%ld,"
           "\"ready_by_main_first\":%ld,\"ready_by_main_last\":%ld,\"ready_by_worker\":%ld,\"private_set_rounds\":%ld,\"tight_rounds\":%ld,\"nb_tasks_zero_crossings\":%ld,"
           "\"observer_polls\":%ld,\"observer_not_ready\":%ld,\"observer_busy\":%ld,\"observer_terminated\":%ld,\"yield_hits\":%llu}",
           W, n_hist, n_overlapped, n_distinct, n_ops, cb_by_op[OP_READY], cb_by_op[OP_DONE_TASKS] + cb_by_op[OP_ADD_TASKS], cb_by_op[OP_DONE_ACTION] + cb_by_op[OP_ADD_ACTIONS],
           cb_by_op[OP_SET_TASKS], cb_by_op[OP_SET_ACTIONS], n_ready_main_first, n_ready_main_last, n_ready_worker, n_private, n_tight, n_zero_cross,
           obs_polls, obs_not_ready, obs_busy, obs_term, (unsigned long long)vf_yield_hits(PARSEC_VERIF_SITE_TERMDET_LOCAL));
    fflush(stdout);
    _exit(vf_nviolations ? 1 : 0);
}
